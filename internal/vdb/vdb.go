// Package vdb wraps a walletdb.DB with tracing, fault injection and commit hooks.
package vdb

import (
	"errors"
	"io"
	"sync"

	"github.com/btcsuite/btcwallet/walletdb"
)

var ErrInjected = errors.New("vdb: injected write failure")
var ErrInjectedCommit = errors.New("vdb: injected commit failure")

type WriteEvent struct {
	Op    string
	Path  string
	Key   []byte
	Value []byte
}

type DB struct {
	Inner walletdb.DB

	mu          sync.Mutex
	FailAt      int  // fail the k-th write of the next write tx (1-based); 0 = off
	FailCommit  bool // next Update: roll back instead of committing
	Fired       bool
	LastFailed  WriteEvent
	Eligible    func(WriteEvent) bool
	LastWrites  int
	Trace       func(WriteEvent)
	PreCommit   func() // runs right before each OnCommit handler
	AfterCommit func()
}

func New(inner walletdb.DB) *DB { return &DB{Inner: inner} }

type txState struct {
	db     *DB
	writes int
	failAt int
}

func (s *txState) write(op, path string, k, v []byte) error {
	if e := s.db.Eligible; e != nil && s.failAt != 0 && !e(WriteEvent{op, path, k, v}) {
		return nil
	}
	s.writes++
	s.db.mu.Lock()
	s.db.LastWrites = s.writes
	tr := s.db.Trace
	s.db.mu.Unlock()
	if s.failAt != 0 && s.writes == s.failAt {
		s.db.mu.Lock()
		s.db.Fired = true
		s.db.LastFailed = WriteEvent{op, path, append([]byte(nil), k...), append([]byte(nil), v...)}
		s.db.mu.Unlock()
		return ErrInjected
	}
	if tr != nil {
		tr(WriteEvent{op, path, append([]byte(nil), k...), append([]byte(nil), v...)})
	}
	return nil
}

func (d *DB) BeginReadTx() (walletdb.ReadTx, error) {
	t, err := d.Inner.BeginReadTx()
	if err != nil {
		return nil, err
	}
	return &rtx{inner: t, st: &txState{db: d}}, nil
}
func (d *DB) BeginReadWriteTx() (walletdb.ReadWriteTx, error) {
	t, err := d.Inner.BeginReadWriteTx()
	if err != nil {
		return nil, err
	}
	d.mu.Lock()
	st := &txState{db: d, failAt: d.FailAt}
	d.FailAt = 0
	d.Fired = false
	d.LastWrites = 0
	d.mu.Unlock()
	return &rwtx{inner: t, st: st}, nil
}
func (d *DB) Copy(w io.Writer) error { return d.Inner.Copy(w) }
func (d *DB) Close() error           { return d.Inner.Close() }
func (d *DB) PrintStats() string     { return d.Inner.PrintStats() }
func (d *DB) View(f func(tx walletdb.ReadTx) error, reset func()) error {
	reset()
	tx, err := d.BeginReadTx()
	if err != nil {
		return err
	}
	defer func() { _ = tx.Rollback() }()
	return f(tx)
}
func (d *DB) Update(f func(tx walletdb.ReadWriteTx) error, reset func()) error {
	reset()
	tx, err := d.BeginReadWriteTx()
	if err != nil {
		return err
	}
	done := false
	defer func() {
		if !done {
			_ = tx.Rollback()
		}
	}()
	if err := f(tx); err != nil {
		_ = tx.Rollback()
		done = true
		return err
	}
	d.mu.Lock()
	fc := d.FailCommit
	d.FailCommit = false
	d.mu.Unlock()
	if fc {
		_ = tx.Rollback()
		done = true
		return ErrInjectedCommit
	}
	err = tx.Commit()
	done = true
	if err == nil && d.AfterCommit != nil {
		d.AfterCommit()
	}
	return err
}

type rtx struct {
	inner walletdb.ReadTx
	st    *txState
}

func (t *rtx) ReadBucket(key []byte) walletdb.ReadBucket {
	b := t.inner.ReadBucket(key)
	if b == nil {
		return nil
	}
	return &rbucket{inner: b}
}
func (t *rtx) ForEachBucket(fn func(key []byte) error) error { return t.inner.ForEachBucket(fn) }
func (t *rtx) Rollback() error                               { return t.inner.Rollback() }

type rbucket struct{ inner walletdb.ReadBucket }

func (b *rbucket) NestedReadBucket(key []byte) walletdb.ReadBucket {
	n := b.inner.NestedReadBucket(key)
	if n == nil {
		return nil
	}
	return &rbucket{inner: n}
}
func (b *rbucket) ForEach(fn func(k, v []byte) error) error { return b.inner.ForEach(fn) }
func (b *rbucket) Get(key []byte) []byte                    { return b.inner.Get(key) }
func (b *rbucket) ReadCursor() walletdb.ReadCursor          { return b.inner.ReadCursor() }
func (b *rbucket) Sequence() uint64                         { return b.inner.Sequence() }

type rwtx struct {
	inner walletdb.ReadWriteTx
	st    *txState
}

func (t *rwtx) ReadBucket(key []byte) walletdb.ReadBucket {
	b := t.ReadWriteBucket(key)
	if b == nil {
		return nil
	}
	return b
}
func (t *rwtx) ForEachBucket(fn func(key []byte) error) error { return t.inner.ForEachBucket(fn) }
func (t *rwtx) Rollback() error                               { return t.inner.Rollback() }
func (t *rwtx) ReadWriteBucket(key []byte) walletdb.ReadWriteBucket {
	b := t.inner.ReadWriteBucket(key)
	if b == nil {
		return nil
	}
	return &bucket{inner: b, tx: t, path: string(key)}
}
func (t *rwtx) CreateTopLevelBucket(key []byte) (walletdb.ReadWriteBucket, error) {
	if err := t.st.write("CreateTopLevelBucket", "", key, nil); err != nil {
		return nil, err
	}
	b, err := t.inner.CreateTopLevelBucket(key)
	if err != nil {
		return nil, err
	}
	return &bucket{inner: b, tx: t, path: string(key)}, nil
}
func (t *rwtx) DeleteTopLevelBucket(key []byte) error {
	if err := t.st.write("DeleteTopLevelBucket", "", key, nil); err != nil {
		return err
	}
	return t.inner.DeleteTopLevelBucket(key)
}
func (t *rwtx) Commit() error { return t.inner.Commit() }
func (t *rwtx) OnCommit(f func()) {
	t.inner.OnCommit(func() {
		if p := t.st.db.PreCommit; p != nil {
			p()
		}
		f()
	})
}

type bucket struct {
	inner walletdb.ReadWriteBucket
	tx    *rwtx
	path  string
}

func (b *bucket) wrap(n walletdb.ReadWriteBucket, key []byte) walletdb.ReadWriteBucket {
	if n == nil {
		return nil
	}
	return &bucket{inner: n, tx: b.tx, path: b.path + "/" + string(key)}
}
func (b *bucket) NestedReadBucket(key []byte) walletdb.ReadBucket {
	n := b.NestedReadWriteBucket(key)
	if n == nil {
		return nil
	}
	return n
}
func (b *bucket) ForEach(fn func(k, v []byte) error) error { return b.inner.ForEach(fn) }
func (b *bucket) Get(key []byte) []byte                    { return b.inner.Get(key) }
func (b *bucket) ReadCursor() walletdb.ReadCursor          { return b.ReadWriteCursor() }
func (b *bucket) Sequence() uint64                         { return b.inner.Sequence() }
func (b *bucket) NestedReadWriteBucket(key []byte) walletdb.ReadWriteBucket {
	return b.wrap(b.inner.NestedReadWriteBucket(key), key)
}
func (b *bucket) CreateBucket(key []byte) (walletdb.ReadWriteBucket, error) {
	if err := b.tx.st.write("CreateBucket", b.path, key, nil); err != nil {
		return nil, err
	}
	n, err := b.inner.CreateBucket(key)
	if err != nil {
		return nil, err
	}
	return b.wrap(n, key), nil
}
func (b *bucket) CreateBucketIfNotExists(key []byte) (walletdb.ReadWriteBucket, error) {
	if b.inner.NestedReadWriteBucket(key) == nil {
		if err := b.tx.st.write("CreateBucketIfNotExists", b.path, key, nil); err != nil {
			return nil, err
		}
	}
	n, err := b.inner.CreateBucketIfNotExists(key)
	if err != nil {
		return nil, err
	}
	return b.wrap(n, key), nil
}
func (b *bucket) DeleteNestedBucket(key []byte) error {
	if err := b.tx.st.write("DeleteNestedBucket", b.path, key, nil); err != nil {
		return err
	}
	return b.inner.DeleteNestedBucket(key)
}
func (b *bucket) Put(key, value []byte) error {
	if err := b.tx.st.write("Put", b.path, key, value); err != nil {
		return err
	}
	return b.inner.Put(key, value)
}
func (b *bucket) Delete(key []byte) error {
	if err := b.tx.st.write("Delete", b.path, key, nil); err != nil {
		return err
	}
	return b.inner.Delete(key)
}
func (b *bucket) ReadWriteCursor() walletdb.ReadWriteCursor {
	return &cursor{inner: b.inner.ReadWriteCursor(), b: b}
}
func (b *bucket) Tx() walletdb.ReadWriteTx { return b.tx }
func (b *bucket) NextSequence() (uint64, error) {
	if err := b.tx.st.write("NextSequence", b.path, nil, nil); err != nil {
		return 0, err
	}
	return b.inner.NextSequence()
}
func (b *bucket) SetSequence(v uint64) error {
	if err := b.tx.st.write("SetSequence", b.path, nil, nil); err != nil {
		return err
	}
	return b.inner.SetSequence(v)
}

type cursor struct {
	inner walletdb.ReadWriteCursor
	b     *bucket
}

func (c *cursor) First() (k, v []byte)        { return c.inner.First() }
func (c *cursor) Last() (k, v []byte)         { return c.inner.Last() }
func (c *cursor) Next() (k, v []byte)         { return c.inner.Next() }
func (c *cursor) Prev() (k, v []byte)         { return c.inner.Prev() }
func (c *cursor) Seek(s []byte) (k, v []byte) { return c.inner.Seek(s) }
func (c *cursor) Delete() error {
	if err := c.b.tx.st.write("CursorDelete", c.b.path, nil, nil); err != nil {
		return err
	}
	return c.inner.Delete()
}
