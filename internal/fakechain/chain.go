// Package fakechain is an in-memory chain back end implementing
// chain.Interface: a best chain with reorgs, a mempool, a notification channel
// the harness feeds deterministically, per-call answer policies for
// broadcasts and subscriptions, and a FilterBlocks built on the real
// chain.BlockFilterer. It is the oracle of C15 (what the best chain is) and
// the ledger of what was delivered to the wallet for C06/C16/C20.
package fakechain

import (
	"errors"
	"fmt"
	"sync"
	"time"

	"github.com/btcsuite/btcd/btcjson"
	"github.com/btcsuite/btcd/btcutil"
	"github.com/btcsuite/btcd/chaincfg"
	"github.com/btcsuite/btcd/chaincfg/chainhash"
	"github.com/btcsuite/btcd/txscript"
	"github.com/btcsuite/btcd/wire"
	"github.com/btcsuite/btcwallet/chain"
	"github.com/btcsuite/btcwallet/waddrmgr"
	"github.com/btcsuite/btcwallet/wtxmgr"
)

// Noop is a notification value the wallet ignores; two of them form a barrier.
type Noop struct{}

type Chain struct {
	mu       sync.Mutex
	Params   *chaincfg.Params
	best     []*wire.MsgBlock
	byHash   map[chainhash.Hash]*wire.MsgBlock
	ntfn     chan interface{}
	watch    map[string]bool
	watchOps map[wire.OutPoint]bool
	nonce    uint32
	Spacing  time.Duration

	// Style: 0 = btcd (RelevantTx..., BlockConnected), 1 = bitcoind/neutrino
	// (FilteredBlockConnected, BlockConnected)
	Style int

	// answer policies (nil = accept)
	// MapErr, when set, stands in for the backend's MapRPCErr (e.g. the real
	// chain.NeutrinoClient mapping of btcd's error texts)
	MapErr     func(error) error
	SendHook   func(tx *wire.MsgTx) error
	NotifyHook func(call int, addrs []btcutil.Address) error
	FilterHook func(call int) error
	// FilterReqHook additionally sees the height of the first block of the request.
	FilterReqHook func(call int, firstHeight int32) error
	// DuringRescan runs inside a Rescan, after the scan range was fixed and
	// before RescanFinished is emitted; it may extend the chain.
	DuringRescan func()
	// AfterRescan runs right behind the RescanFinished notification, in the same
	// goroutine: whatever it sends are the backend's very next notifications.
	AfterRescan func()

	notifyCalls int
	bestCalls   int
	filterCalls int
	Sent        []*wire.MsgTx // every tx handed to SendRawTransaction, in order
	Mempool     map[chainhash.Hash]*wire.MsgTx
	Rescans     int
	stopped     bool
}

func New(p *chaincfg.Params) *Chain {
	c := &Chain{Params: p, byHash: map[chainhash.Hash]*wire.MsgBlock{}, ntfn: make(chan interface{}),
		watch: map[string]bool{}, watchOps: map[wire.OutPoint]bool{}, Mempool: map[chainhash.Hash]*wire.MsgTx{}, Spacing: 10 * time.Minute}
	c.best = append(c.best, p.GenesisBlock)
	c.byHash[p.GenesisBlock.BlockHash()] = p.GenesisBlock
	return c
}

// NewSession replaces the notification channel (a new backend connection after
// a wallet restart).
func (c *Chain) NewSession() {
	c.mu.Lock()
	c.ntfn = make(chan interface{})
	c.stopped = false
	c.mu.Unlock()
}

func (c *Chain) mkBlock(prev *wire.MsgBlock, height int, spacing time.Duration, txs ...*wire.MsgTx) *wire.MsgBlock {
	c.nonce++
	cb := wire.NewMsgTx(1)
	cb.AddTxIn(wire.NewTxIn(&wire.OutPoint{Index: 0xffffffff}, []byte{byte(height), byte(height >> 8), byte(c.nonce), byte(c.nonce >> 8), byte(c.nonce >> 16), 2}, nil))
	cb.AddTxOut(wire.NewTxOut(50e8, []byte{txscript.OP_TRUE}))
	b := wire.NewMsgBlock(&wire.BlockHeader{Version: 1, PrevBlock: prev.BlockHash(), Timestamp: prev.Header.Timestamp.Add(spacing), Nonce: c.nonce})
	b.AddTransaction(cb)
	for _, t := range txs {
		b.AddTransaction(t)
	}
	c.byHash[b.BlockHash()] = b
	return b
}

// Extend appends a block to the best chain (no notification).
func (c *Chain) Extend(txs ...*wire.MsgTx) *wire.MsgBlock {
	return c.ExtendSpaced(c.Spacing, txs...)
}

func (c *Chain) ExtendSpaced(spacing time.Duration, txs ...*wire.MsgTx) *wire.MsgBlock {
	c.mu.Lock()
	defer c.mu.Unlock()
	b := c.mkBlock(c.best[len(c.best)-1], len(c.best), spacing, txs...)
	c.best = append(c.best, b)
	for _, t := range txs {
		delete(c.Mempool, t.TxHash())
	}
	return b
}

// ExtendWithCoinbase appends a block whose coinbase is cb (a wallet-paying coinbase).
func (c *Chain) ExtendWithCoinbase(cb *wire.MsgTx, txs ...*wire.MsgTx) *wire.MsgBlock {
	c.mu.Lock()
	defer c.mu.Unlock()
	c.nonce++
	prev := c.best[len(c.best)-1]
	b := wire.NewMsgBlock(&wire.BlockHeader{Version: 1, PrevBlock: prev.BlockHash(), Timestamp: prev.Header.Timestamp.Add(c.Spacing), Nonce: c.nonce})
	b.AddTransaction(cb)
	for _, t := range txs {
		b.AddTransaction(t)
		delete(c.Mempool, t.TxHash())
	}
	c.byHash[b.BlockHash()] = b
	c.best = append(c.best, b)
	return b
}

func (c *Chain) Height() int32 {
	c.mu.Lock()
	defer c.mu.Unlock()
	return int32(len(c.best) - 1)
}

func (c *Chain) BlockAt(h int32) *wire.MsgBlock {
	c.mu.Lock()
	defer c.mu.Unlock()
	if h < 0 || int(h) >= len(c.best) {
		return nil
	}
	return c.best[h]
}

// OnBest reports whether a block hash is on the best chain, and its height.
func (c *Chain) OnBest(h chainhash.Hash) (int32, bool) {
	c.mu.Lock()
	defer c.mu.Unlock()
	for i, b := range c.best {
		if b.BlockHash() == h {
			return int32(i), true
		}
	}
	return 0, false
}

// ---- chain.Interface ----

func (c *Chain) Start() error     { return nil }
func (c *Chain) Stop()            {}
func (c *Chain) WaitForShutdown() {}
func (c *Chain) GetBestBlock() (*chainhash.Hash, int32, error) {
	c.mu.Lock()
	defer c.mu.Unlock()
	c.bestCalls++
	h := c.best[len(c.best)-1].BlockHash()
	return &h, int32(len(c.best) - 1), nil
}
func (c *Chain) GetBlock(h *chainhash.Hash) (*wire.MsgBlock, error) {
	c.mu.Lock()
	defer c.mu.Unlock()
	if b, ok := c.byHash[*h]; ok {
		return b, nil
	}
	return nil, errors.New("fakechain: block not found")
}
func (c *Chain) GetBlockHash(height int64) (*chainhash.Hash, error) {
	c.mu.Lock()
	defer c.mu.Unlock()
	if height < 0 || int(height) >= len(c.best) {
		return nil, errors.New("fakechain: height out of range")
	}
	h := c.best[height].BlockHash()
	return &h, nil
}
func (c *Chain) GetBlockHeader(h *chainhash.Hash) (*wire.BlockHeader, error) {
	b, err := c.GetBlock(h)
	if err != nil {
		return nil, err
	}
	return &b.Header, nil
}
func (c *Chain) IsCurrent() bool { return true }
func (c *Chain) BlockStamp() (*waddrmgr.BlockStamp, error) {
	c.mu.Lock()
	defer c.mu.Unlock()
	t := c.best[len(c.best)-1]
	return &waddrmgr.BlockStamp{Hash: t.BlockHash(), Height: int32(len(c.best) - 1), Timestamp: t.Header.Timestamp}, nil
}
func (c *Chain) NotifyBlocks() error               { return nil }
func (c *Chain) Notifications() <-chan interface{} { c.mu.Lock(); defer c.mu.Unlock(); return c.ntfn }
func (c *Chain) BackEnd() string                   { return "btcd" }
func (c *Chain) TestMempoolAccept([]*wire.MsgTx, float64) ([]*btcjson.TestMempoolAcceptResult, error) {
	return nil, errors.New("fakechain: testmempoolaccept not supported")
}
func (c *Chain) MapRPCErr(err error) error {
	c.mu.Lock()
	f := c.MapErr
	c.mu.Unlock()
	if f != nil {
		return f(err)
	}
	return err
}

func (c *Chain) SendRawTransaction(tx *wire.MsgTx, _ bool) (*chainhash.Hash, error) {
	c.mu.Lock()
	c.Sent = append(c.Sent, tx)
	hook := c.SendHook
	mapErr := c.MapErr
	c.mu.Unlock()
	if hook != nil {
		if err := hook(tx); err != nil {
			// the real clients map the node's answer inside SendRawTransaction
			if mapErr != nil {
				err = mapErr(err)
			}
			return nil, err
		}
	}
	h := tx.TxHash()
	c.mu.Lock()
	defer c.mu.Unlock()
	// answer like a real node: a transaction already in a best-chain block
	// or already in the mempool is not accepted a second time
	if c.confirmedLocked(h) {
		return nil, chain.ErrTxAlreadyConfirmed
	}
	if _, ok := c.Mempool[h]; ok {
		return nil, chain.ErrTxAlreadyInMempool
	}
	// a node refuses a transaction that spends an outpoint another mempool
	// or best-chain transaction already spends
	for _, in := range tx.TxIn {
		for _, m := range c.Mempool {
			for _, min := range m.TxIn {
				if min.PreviousOutPoint == in.PreviousOutPoint {
					return nil, chain.ErrMempoolConflict
				}
			}
		}
		for _, b := range c.best {
			for _, t := range b.Transactions {
				for _, bin := range t.TxIn {
					if bin.PreviousOutPoint == in.PreviousOutPoint {
						return nil, chain.ErrMissingInputsOrSpent
					}
				}
			}
		}
	}
	c.Mempool[h] = tx
	return &h, nil
}

func (c *Chain) confirmedLocked(h chainhash.Hash) bool {
	for _, b := range c.best {
		for _, t := range b.Transactions {
			if t.TxHash() == h {
				return true
			}
		}
	}
	return false
}

// Evict drops a transaction from the mempool (the node forgot / refused it).
func (c *Chain) Evict(h chainhash.Hash) {
	c.mu.Lock()
	delete(c.Mempool, h)
	c.mu.Unlock()
}

// MempoolTxs returns a snapshot of the mempool.
func (c *Chain) MempoolTxs() map[chainhash.Hash]*wire.MsgTx {
	c.mu.Lock()
	defer c.mu.Unlock()
	m := make(map[chainhash.Hash]*wire.MsgTx, len(c.Mempool))
	for k, v := range c.Mempool {
		m[k] = v
	}
	return m
}

// SentTxs returns a snapshot of everything handed to SendRawTransaction.
func (c *Chain) SentTxs() []*wire.MsgTx {
	c.mu.Lock()
	defer c.mu.Unlock()
	return append([]*wire.MsgTx(nil), c.Sent...)
}

func (c *Chain) NotifyReceived(addrs []btcutil.Address) error {
	c.mu.Lock()
	c.notifyCalls++
	n := c.notifyCalls
	hook := c.NotifyHook
	c.mu.Unlock()
	if hook != nil {
		if err := hook(n, addrs); err != nil {
			return err
		}
	}
	c.mu.Lock()
	for _, a := range addrs {
		c.watch[a.EncodeAddress()] = true
	}
	c.mu.Unlock()
	return nil
}

// NotifyCalls returns how many NotifyReceived calls were made so far.
func (c *Chain) NotifyCalls() int { c.mu.Lock(); defer c.mu.Unlock(); return c.notifyCalls }

// FilterBlocks uses the real chain.BlockFilterer, as the bitcoind/neutrino clients do.
func (c *Chain) FilterBlocks(req *chain.FilterBlocksRequest) (*chain.FilterBlocksResponse, error) {
	c.mu.Lock()
	c.filterCalls++
	n := c.filterCalls
	hook := c.FilterHook
	rhook := c.FilterReqHook
	c.mu.Unlock()
	if hook != nil {
		if err := hook(n); err != nil {
			return nil, err
		}
	}
	if rhook != nil && len(req.Blocks) > 0 {
		if err := rhook(n, req.Blocks[0].Height); err != nil {
			return nil, err
		}
	}
	bf := chain.NewBlockFilterer(c.Params, req)
	for i, bm := range req.Blocks {
		b, err := c.GetBlock(&bm.Hash)
		if err != nil {
			return nil, err
		}
		if !bf.FilterBlock(b) {
			continue
		}
		return &chain.FilterBlocksResponse{BatchIndex: uint32(i), BlockMeta: bm, FoundExternalAddrs: bf.FoundExternal,
			FoundInternalAddrs: bf.FoundInternal, FoundOutPoints: bf.FoundOutPoints, RelevantTxns: bf.RelevantTxns}, nil
	}
	return nil, nil
}

// BestCalls counts GetBestBlock calls (a sync attempt makes a handful; a retry storm makes thousands).
func (c *Chain) BestCalls() int { c.mu.Lock(); defer c.mu.Unlock(); return c.bestCalls }

func (c *Chain) FilterCalls() int { c.mu.Lock(); defer c.mu.Unlock(); return c.filterCalls }

// relevantLocked: pays a watched address or spends a watched outpoint. Outputs
// paying watched addresses become watched outpoints (as btcd's tx filter does).
func (c *Chain) relevantLocked(tx *wire.MsgTx) bool {
	rel := false
	for _, in := range tx.TxIn {
		if c.watchOps[in.PreviousOutPoint] {
			rel = true
		}
	}
	h := tx.TxHash()
	for i, o := range tx.TxOut {
		_, addrs, _, _ := txscript.ExtractPkScriptAddrs(o.PkScript, c.Params)
		for _, a := range addrs {
			if c.watch[a.EncodeAddress()] {
				rel = true
				c.watchOps[wire.OutPoint{Hash: h, Index: uint32(i)}] = true
			}
		}
	}
	return rel
}

func (c *Chain) Rescan(start *chainhash.Hash, addrs []btcutil.Address, ops map[wire.OutPoint]btcutil.Address) error {
	c.mu.Lock()
	c.Rescans++
	for _, a := range addrs {
		c.watch[a.EncodeAddress()] = true
	}
	for op := range ops {
		c.watchOps[op] = true
	}
	startH := -1
	for i, b := range c.best {
		if b.BlockHash() == *start {
			startH = i
		}
	}
	if startH < 0 {
		c.mu.Unlock()
		return fmt.Errorf("fakechain: rescan start block %v not on the best chain", start)
	}
	ch := c.ntfn
	during := c.DuringRescan
	after := c.AfterRescan
	c.mu.Unlock()
	go func() {
		scanned := startH
		emit := func() bool {
			c.mu.Lock()
			var out []interface{}
			for h := scanned + 1; h < len(c.best); h++ {
				b := c.best[h]
				bm := &wtxmgr.BlockMeta{Block: wtxmgr.Block{Hash: b.BlockHash(), Height: int32(h)}, Time: b.Header.Timestamp}
				for _, tx := range b.Transactions {
					if c.relevantLocked(tx) {
						rec, _ := wtxmgr.NewTxRecordFromMsgTx(tx, b.Header.Timestamp)
						out = append(out, chain.RelevantTx{TxRecord: rec, Block: bm})
					}
				}
				scanned = h
			}
			c.mu.Unlock()
			for _, n := range out {
				if !c.send(ch, n) {
					return false
				}
			}
			return true
		}
		if !emit() {
			return
		}
		if during != nil {
			during()
			if !emit() { // blocks that arrived during the rescan are covered by it
				return
			}
		}
		c.mu.Lock()
		tip := c.best[scanned]
		th := tip.BlockHash()
		fin := &chain.RescanFinished{Hash: &th, Height: int32(scanned), Time: tip.Header.Timestamp}
		c.mu.Unlock()
		c.send(ch, fin)
		if after != nil {
			after()
		}
	}()
	return nil
}

// Shutdown makes pending notification sends give up (wallet stopped).
func (c *Chain) Shutdown() {
	c.mu.Lock()
	c.stopped = true
	c.mu.Unlock()
}

func (c *Chain) send(ch chan interface{}, n interface{}) bool {
	for {
		select {
		case ch <- n:
			return true
		case <-time.After(20 * time.Millisecond):
			c.mu.Lock()
			s := c.stopped
			c.mu.Unlock()
			if s {
				return false
			}
		}
	}
}

// Send delivers one notification to the wallet (blocks until accepted).
func (c *Chain) Send(n interface{}) bool {
	c.mu.Lock()
	ch := c.ntfn
	c.mu.Unlock()
	return c.send(ch, n)
}

// Barrier returns once every notification sent before it has been fully
// processed: the wallet takes the next notification only after finishing the
// previous one, so when the second no-op has been accepted the first one, and
// everything before it, is done.
func (c *Chain) Barrier() bool { return c.Send(Noop{}) && c.Send(Noop{}) }

func (c *Chain) meta(h int) wtxmgr.BlockMeta {
	b := c.best[h]
	return wtxmgr.BlockMeta{Block: wtxmgr.Block{Hash: b.BlockHash(), Height: int32(h)}, Time: b.Header.Timestamp}
}

// NotifyConnect delivers block h of the best chain in the configured style.
// DisconnectedAt builds the BlockDisconnected notification for the best-chain
// block at height h (the chain itself is not changed).
func (c *Chain) DisconnectedAt(h int) chain.BlockDisconnected {
	c.mu.Lock()
	defer c.mu.Unlock()
	return chain.BlockDisconnected(c.meta(h))
}

func (c *Chain) NotifyConnect(h int) {
	c.mu.Lock()
	b := c.best[h]
	bm := c.meta(h)
	var recs []*wtxmgr.TxRecord
	for _, tx := range b.Transactions {
		if c.relevantLocked(tx) {
			rec, _ := wtxmgr.NewTxRecordFromMsgTx(tx, b.Header.Timestamp)
			recs = append(recs, rec)
		}
	}
	style := c.Style
	c.mu.Unlock()
	if style == 0 {
		for _, rec := range recs {
			bmc := bm
			c.Send(chain.RelevantTx{TxRecord: rec, Block: &bmc})
		}
	} else {
		bmc := bm
		c.Send(chain.FilteredBlockConnected{Block: &bmc, RelevantTxs: recs})
	}
	c.Send(chain.BlockConnected(bm))
}

// NotifyTx delivers an unconfirmed relevant transaction.
func (c *Chain) NotifyTx(tx *wire.MsgTx, at time.Time) bool {
	c.mu.Lock()
	rel := c.relevantLocked(tx)
	c.Mempool[tx.TxHash()] = tx
	c.mu.Unlock()
	if !rel {
		return false
	}
	rec, _ := wtxmgr.NewTxRecordFromMsgTx(tx, at)
	c.Send(chain.RelevantTx{TxRecord: rec})
	return true
}

// Reorg replaces the top `depth` blocks by `newLen` new ones (silently).
// It returns the disconnect notifications (tip first) and the fork height.
func (c *Chain) ReorgSilent(depth, newLen int, txsAt map[int][]*wire.MsgTx) ([]chain.BlockDisconnected, int) {
	c.mu.Lock()
	defer c.mu.Unlock()
	old := c.best
	fork := len(old) - depth
	if fork < 1 {
		fork = 1
	}
	var discs []chain.BlockDisconnected
	for h := len(old) - 1; h >= fork; h-- {
		discs = append(discs, chain.BlockDisconnected(c.meta(h)))
		// transactions of disconnected blocks go back to the mempool
		for _, tx := range old[h].Transactions[1:] {
			c.Mempool[tx.TxHash()] = tx
		}
	}
	nb := append([]*wire.MsgBlock{}, old[:fork]...)
	for i := 0; i < newLen; i++ {
		txs := txsAt[len(nb)]
		b := c.mkBlock(nb[len(nb)-1], len(nb), c.Spacing, txs...)
		for _, t := range txs {
			delete(c.Mempool, t.TxHash())
		}
		nb = append(nb, b)
	}
	c.best = nb
	return discs, fork
}

// Reorg performs ReorgSilent and delivers disconnects (tip first) and connects.
func (c *Chain) Reorg(depth, newLen int, txsAt map[int][]*wire.MsgTx) {
	discs, fork := c.ReorgSilent(depth, newLen, txsAt)
	for _, d := range discs {
		c.Send(d)
	}
	for h := fork; h <= int(c.Height()); h++ {
		c.NotifyConnect(h)
	}
}
