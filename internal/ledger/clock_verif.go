//go:build verif

package ledger

import (
	"github.com/btcsuite/btcwallet/wtxmgr"
	"github.com/lightningnetwork/lnd/clock"
)

func installClock(s *wtxmgr.Store, c clock.Clock) { s.VerifSetClock(c) }
