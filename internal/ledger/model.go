// Package ledger is the reference model ("ledger truth") for wtxmgr and the
// generator of chain-consistent event histories used by C01, C02, C12, C13
// and C14.
//
// The model holds only facts: which transactions are known, where each one
// is (block height or unmined), which of their outputs are wallet credits,
// and which outputs are leased.  Everything else (spent-ness, balances,
// spendable set, details) is recomputed by scanning those facts, straight
// from the wording of the properties.  It never looks into wtxmgr buckets.
package ledger

import (
	"fmt"
	"sort"
	"strings"
	"time"

	"github.com/btcsuite/btcd/btcutil"
	"github.com/btcsuite/btcd/chaincfg/chainhash"
	"github.com/btcsuite/btcd/wire"
)

// Tx is one transaction of the universe.
type Tx struct {
	Msg      *wire.MsgTx
	Hash     chainhash.Hash
	Credits  map[uint32]bool // output index -> change flag
	Height   int32           // -1 unmined
	Coinbase bool
	Recv     time.Time
	Seq      int // creation order (topological: a tx only spends earlier ones)
}

func (t *Tx) Short() string { return t.Hash.String()[:8] }

// Block is a block that contains at least one known transaction.
type Block struct {
	Height int32
	Hash   chainhash.Hash
	Time   time.Time
	Txs    []chainhash.Hash
}

// Lease is an output lease. Exp is the effective (persisted, whole-second)
// expiry.
type Lease struct {
	ID  [32]byte
	Exp time.Time
}

// Model is the ledger truth.
type Model struct {
	Maturity int32
	Known    map[chainhash.Hash]*Tx
	Blocks   []*Block // ascending height
	Tip      int32    // chain tip (>= top block with wallet txs)
	Leases   map[wire.OutPoint]Lease
	Now      time.Time
}

func NewModel(maturity int32) *Model {
	return &Model{
		Maturity: maturity,
		Known:    map[chainhash.Hash]*Tx{},
		Leases:   map[wire.OutPoint]Lease{},
		Now:      time.Unix(1700000000, 0),
	}
}

// Top is the height of the highest block holding a known transaction.
func (m *Model) Top() int32 {
	if len(m.Blocks) == 0 {
		return 0
	}
	return m.Blocks[len(m.Blocks)-1].Height
}

// Spenders returns the known transactions with an input on op.
func (m *Model) Spenders(op wire.OutPoint) []*Tx {
	var r []*Tx
	for _, t := range m.Known {
		if t.Coinbase {
			continue
		}
		for _, in := range t.Msg.TxIn {
			if in.PreviousOutPoint == op {
				r = append(r, t)
				break
			}
		}
	}
	return r
}

func (m *Model) Spent(op wire.OutPoint) bool { return len(m.Spenders(op)) > 0 }

func (m *Model) SpentByMined(op wire.OutPoint) bool {
	for _, s := range m.Spenders(op) {
		if s.Height != -1 {
			return true
		}
	}
	return false
}

// RemoveWithDesc forgets t and, recursively, every known transaction
// spending one of its outputs.
func (m *Model) RemoveWithDesc(t *Tx) int {
	if _, ok := m.Known[t.Hash]; !ok {
		return 0
	}
	delete(m.Known, t.Hash)
	n := 1
	for i := range t.Msg.TxOut {
		for _, s := range m.Spenders(wire.OutPoint{Hash: t.Hash, Index: uint32(i)}) {
			n += m.RemoveWithDesc(s)
		}
	}
	return n
}

// LeaseActive reports the lease on op that is in force at m.Now.
func (m *Model) LeaseActive(op wire.OutPoint) (Lease, bool) {
	le, ok := m.Leases[op]
	if !ok || !m.Now.Before(le.Exp) {
		return Lease{}, false
	}
	return le, true
}

// Credit is a wallet-credited output of a known transaction.
type Credit struct {
	Op       wire.OutPoint
	Amt      btcutil.Amount
	Height   int32
	Coinbase bool
	Change   bool
	Block    *Block
}

func (m *Model) blockAt(h int32) *Block {
	for _, b := range m.Blocks {
		if b.Height == h {
			return b
		}
	}
	return nil
}

func (m *Model) Credits() []Credit {
	var r []Credit
	for _, t := range m.Known {
		for i, ch := range t.Credits {
			c := Credit{Op: wire.OutPoint{Hash: t.Hash, Index: i}, Amt: btcutil.Amount(t.Msg.TxOut[i].Value), Height: t.Height, Coinbase: t.Coinbase, Change: ch}
			if t.Height != -1 {
				c.Block = m.blockAt(t.Height)
			}
			r = append(r, c)
		}
	}
	sort.Slice(r, func(i, j int) bool { return r[i].Op.String() < r[j].Op.String() })
	return r
}

// Balance is the property's sentence: sum of credited, positive-value outputs
// of known transactions that no known transaction spends, that are not
// leased, that have at least minconf confirmations (unconfirmed ones count
// only at zero) and that, if coinbase, have matured.
func (m *Model) Balance(minconf, sync int32) btcutil.Amount {
	var b btcutil.Amount
	for _, c := range m.Credits() {
		if m.Spent(c.Op) {
			continue
		}
		if _, leased := m.LeaseActive(c.Op); leased {
			continue
		}
		if c.Height == -1 {
			if minconf == 0 {
				b += c.Amt
			}
			continue
		}
		confs := sync - c.Height + 1
		if confs < minconf {
			continue
		}
		if c.Coinbase && confs < m.Maturity {
			continue
		}
		b += c.Amt
	}
	return b
}

func creditStr(c Credit) string {
	bh := "-"
	if c.Block != nil {
		bh = c.Block.Hash.String()[:8]
	}
	return fmt.Sprintf("%s:%d amt=%d h=%d blk=%s cb=%v", c.Op.Hash.String()[:10], c.Op.Index, c.Amt, c.Height, bh, c.Coinbase)
}

// Unspent: credited outputs that are unspent and unleased.
func (m *Model) Unspent() []string {
	var r []string
	for _, c := range m.Credits() {
		if m.Spent(c.Op) {
			continue
		}
		if _, leased := m.LeaseActive(c.Op); leased {
			continue
		}
		r = append(r, creditStr(c))
	}
	sort.Strings(r)
	return r
}

// Watch: every credit not spent by a mined transaction (leased or not).
func (m *Model) Watch() []string {
	var r []string
	for _, c := range m.Credits() {
		if m.SpentByMined(c.Op) {
			continue
		}
		r = append(r, fmt.Sprintf("%s:%d", c.Op.Hash.String()[:10], c.Op.Index))
	}
	sort.Strings(r)
	return r
}

func (m *Model) Unmined() []*Tx {
	var r []*Tx
	for _, t := range m.Known {
		if t.Height == -1 {
			r = append(r, t)
		}
	}
	sort.Slice(r, func(i, j int) bool { return r[i].Seq < r[j].Seq })
	return r
}

// DetailStr is what TxDetails must say about a known transaction.
func (m *Model) DetailStr(t *Tx) string {
	var cr []string
	var idx []int
	for i := range t.Credits {
		idx = append(idx, int(i))
	}
	sort.Ints(idx)
	for _, i := range idx {
		op := wire.OutPoint{Hash: t.Hash, Index: uint32(i)}
		cr = append(cr, fmt.Sprintf("c%d amt=%d spent=%v change=%v", i, t.Msg.TxOut[i].Value, m.Spent(op), t.Credits[uint32(i)]))
	}
	var db []string
	if !t.Coinbase {
		for i, in := range t.Msg.TxIn {
			p, ok := m.Known[in.PreviousOutPoint.Hash]
			if !ok {
				continue
			}
			if _, isCred := p.Credits[in.PreviousOutPoint.Index]; isCred {
				db = append(db, fmt.Sprintf("d%d amt=%d", i, p.Msg.TxOut[in.PreviousOutPoint.Index].Value))
			}
		}
	}
	bh := "-"
	if t.Height != -1 {
		if b := m.blockAt(t.Height); b != nil {
			bh = b.Hash.String()[:8]
		}
	}
	return fmt.Sprintf("h=%d blk=%s credits=[%s] debits=[%s]", t.Height, bh, strings.Join(cr, ";"), strings.Join(db, ";"))
}

// DebitScripts: pkScripts of the wallet credits the transaction spends, in
// input order.
func (m *Model) DebitScripts(t *Tx) [][]byte {
	var r [][]byte
	if t.Coinbase {
		return r
	}
	for _, in := range t.Msg.TxIn {
		p, ok := m.Known[in.PreviousOutPoint.Hash]
		if !ok {
			continue
		}
		if _, isCred := p.Credits[in.PreviousOutPoint.Index]; isCred {
			r = append(r, p.Msg.TxOut[in.PreviousOutPoint.Index].PkScript)
		}
	}
	return r
}

// StateHash is a canonical digest of the model state (for counting distinct
// states reached).
func (m *Model) StateHash() string {
	var parts []string
	for _, t := range m.Known {
		parts = append(parts, fmt.Sprintf("%s@%d", t.Short(), t.Height))
	}
	sort.Strings(parts)
	var ls []string
	for op := range m.Leases {
		if le, ok := m.LeaseActive(op); ok {
			ls = append(ls, fmt.Sprintf("%s:%d/%d", op.Hash.String()[:8], op.Index, le.ID[0]))
		}
	}
	sort.Strings(ls)
	return strings.Join(parts, ",") + "|" + strings.Join(ls, ",")
}

// --- event semantics, straight from the properties' wording ---

// ApplySee: unconfirmed transaction seen (no-op if known).
func (m *Model) ApplySee(t *Tx) {
	if _, ok := m.Known[t.Hash]; ok {
		return
	}
	t.Height = -1
	m.Known[t.Hash] = t
}

// ApplyConfirm: t is confirmed in b. Every unmined transaction conflicting
// with it, and all their descendants, vanish. A confirmed spend removes the
// leases of the outputs it spends. Returns number of removed transactions.
func (m *Model) ApplyConfirm(t *Tx, b *Block) int {
	if k, ok := m.Known[t.Hash]; ok && k.Height == b.Height {
		return 0 // repeated delivery
	}
	removed := 0
	if !t.Coinbase {
		for _, in := range t.Msg.TxIn {
			for _, s := range m.Spenders(in.PreviousOutPoint) {
				if s.Hash != t.Hash {
					removed += m.RemoveWithDesc(s)
				}
			}
			delete(m.Leases, in.PreviousOutPoint)
		}
	}
	t.Height = b.Height
	m.Known[t.Hash] = t
	if m.blockAt(b.Height) == nil {
		m.Blocks = append(m.Blocks, b)
		sort.Slice(m.Blocks, func(i, j int) bool { return m.Blocks[i].Height < m.Blocks[j].Height })
	}
	b.Txs = append(b.Txs, t.Hash)
	if b.Height > m.Tip {
		m.Tip = b.Height
	}
	return removed
}

// ApplyDisconnect: blocks at height >= h are disconnected: their non-coinbase
// transactions become unmined with credits intact; coinbases and everything
// depending on them vanish. Returns (moved, removed).
func (m *Model) ApplyDisconnect(h int32) (int, int) {
	var keep []*Block
	var cbs []*Tx
	moved, removed := 0, 0
	for _, b := range m.Blocks {
		if b.Height < h {
			keep = append(keep, b)
			continue
		}
		for _, hh := range b.Txs {
			t, ok := m.Known[hh]
			if !ok || t.Height != b.Height {
				continue
			}
			if t.Coinbase {
				cbs = append(cbs, t)
			} else {
				t.Height = -1
				moved++
			}
		}
	}
	for _, c := range cbs {
		removed += m.RemoveWithDesc(c)
	}
	m.Blocks = keep
	if m.Tip >= h {
		m.Tip = h - 1
	}
	if m.Tip < 0 {
		m.Tip = 0
	}
	return moved, removed
}

// ApplyAbandon: unmined t and its (unmined) descendants vanish.
func (m *Model) ApplyAbandon(t *Tx) int {
	return m.RemoveWithDesc(t)
}
