package ledger

import (
	"fmt"
	"os"
	"path/filepath"
	"sort"
	"time"

	"github.com/btcsuite/btcd/chaincfg"
	"github.com/btcsuite/btcwallet/walletdb"
	_ "github.com/btcsuite/btcwallet/walletdb/bdb"
	"github.com/btcsuite/btcwallet/wtxmgr"

	"verif/internal/vdb"
)

var NS = []byte("wtxmgr")

// Store is the real wtxmgr.Store under test, on a real bdb file wrapped by vdb.
type Store struct {
	Path   string
	DB     *vdb.DB
	S      *wtxmgr.Store
	Params *chaincfg.Params
	OnOpen func(*wtxmgr.Store) // e.g. install the fake clock after every (re)open
}

func NewStore(dir string, name string, maturity int32) (*Store, error) {
	p := chaincfg.RegressionNetParams
	p.CoinbaseMaturity = uint16(maturity)
	st := &Store{Path: filepath.Join(dir, name), Params: &p}
	inner, err := walletdb.Create("bdb", st.Path, true, 10*time.Second, false)
	if err != nil {
		return nil, err
	}
	st.DB = vdb.New(inner)
	err = walletdb.Update(st.DB, func(tx walletdb.ReadWriteTx) error {
		b, err := tx.CreateTopLevelBucket(NS)
		if err != nil {
			return err
		}
		if err := wtxmgr.Create(b); err != nil {
			return err
		}
		st.S, err = wtxmgr.Open(b, st.Params)
		return err
	})
	if err != nil {
		inner.Close()
		return nil, err
	}
	return st, nil
}

// Reopen closes the database file and opens it again (restart).
func (st *Store) Reopen() error {
	if err := st.DB.Close(); err != nil {
		return err
	}
	inner, err := walletdb.Open("bdb", st.Path, true, 10*time.Second, false)
	if err != nil {
		return err
	}
	old := st.DB
	st.DB = vdb.New(inner)
	st.DB.Trace, st.DB.Eligible = old.Trace, old.Eligible
	err = walletdb.View(st.DB, func(tx walletdb.ReadTx) error {
		var err error
		st.S, err = wtxmgr.Open(tx.ReadBucket(NS), st.Params)
		return err
	})
	if err == nil && st.OnOpen != nil {
		st.OnOpen(st.S)
	}
	return err
}

func (st *Store) Close() {
	st.DB.Close()
	os.Remove(st.Path)
}

func (st *Store) Update(f func(ns walletdb.ReadWriteBucket) error) error {
	return walletdb.Update(st.DB, func(tx walletdb.ReadWriteTx) error {
		return f(tx.ReadWriteBucket(NS))
	})
}

func (st *Store) View(f func(ns walletdb.ReadBucket) error) error {
	return walletdb.View(st.DB, func(tx walletdb.ReadTx) error {
		return f(tx.ReadBucket(NS))
	})
}

func blockMeta(b *Block) *wtxmgr.BlockMeta {
	if b == nil {
		return nil
	}
	return &wtxmgr.BlockMeta{Block: wtxmgr.Block{Hash: b.Hash, Height: b.Height}, Time: b.Time}
}

// InsertIn mirrors wallet.addRelevantTx inside an open bucket:
// InsertTxCheckIfExists, then AddCredit for every credited output only when
// the record is new.
func (st *Store) InsertIn(ns walletdb.ReadWriteBucket, t *Tx, b *Block) error {
	rec, err := wtxmgr.NewTxRecordFromMsgTx(t.Msg, t.Recv)
	if err != nil {
		return err
	}
	bm := blockMeta(b)
	exists, err := st.S.InsertTxCheckIfExists(ns, rec, bm)
	if err != nil {
		return fmt.Errorf("InsertTx: %w", err)
	}
	if exists {
		return nil
	}
	return st.addCredits(ns, rec, bm, t)
}

func (st *Store) addCredits(ns walletdb.ReadWriteBucket, rec *wtxmgr.TxRecord, bm *wtxmgr.BlockMeta, t *Tx) error {
	idx := make([]int, 0, len(t.Credits))
	for i := range t.Credits {
		idx = append(idx, int(i))
	}
	sort.Ints(idx)
	for _, i := range idx {
		if err := st.S.AddCredit(ns, rec, bm, uint32(i), t.Credits[uint32(i)]); err != nil {
			return fmt.Errorf("AddCredit: %w", err)
		}
	}
	return nil
}

func (st *Store) Insert(t *Tx, b *Block) error {
	return st.Update(func(ns walletdb.ReadWriteBucket) error { return st.InsertIn(ns, t, b) })
}

// ReAddCredits marks the credits of an already known transaction again
// (repeated credit marking; must be idempotent).
func (st *Store) ReAddCredits(t *Tx, b *Block) error {
	return st.Update(func(ns walletdb.ReadWriteBucket) error {
		rec, err := wtxmgr.NewTxRecordFromMsgTx(t.Msg, t.Recv)
		if err != nil {
			return err
		}
		return st.addCredits(ns, rec, blockMeta(b), t)
	})
}

func (st *Store) Rollback(h int32) error {
	return st.Update(func(ns walletdb.ReadWriteBucket) error { return st.S.Rollback(ns, h) })
}

func (st *Store) Abandon(t *Tx) error {
	return st.Update(func(ns walletdb.ReadWriteBucket) error {
		rec, err := wtxmgr.NewTxRecordFromMsgTx(t.Msg, t.Recv)
		if err != nil {
			return err
		}
		return st.S.RemoveUnminedTx(ns, rec)
	})
}
