package ledger

import (
	"fmt"

	"verif/internal/evid"
)

// Record folds one history's observations into the evidence run and reports
// a disagreement as a violation.
func Record(r *evid.Run, res *Result, phase string, cs int64, nontrivial bool) {
	for k, v := range res.Stats {
		r.Hit(k, v)
	}
	r.Hit("events", res.Steps)
	for _, s := range res.StateSigs {
		r.Distinct("ledger-states", s)
	}
	r.Case(fmt.Sprint(res.Events), nontrivial)
	if res.Diff != nil {
		r.Violation(res.Diff.Key, res.Diff.What, phase, cs, map[string]any{"events": res.Events, "disagreement": res.Diff.What})
		return
	}
	if r.WantSample() && len(res.Events) > 10 && len(res.Events) < 45 {
		r.Sample(map[string]any{"case_seed": cs, "events": res.Events})
	}
}
