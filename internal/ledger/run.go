package ledger

import (
	"fmt"
	"math/rand"
	"os"
	"sort"
	"time"

	"github.com/btcsuite/btcd/chaincfg/chainhash"
	"github.com/btcsuite/btcd/wire"
	"github.com/btcsuite/btcwallet/walletdb"
	"github.com/btcsuite/btcwallet/wtxmgr"
	"github.com/lightningnetwork/lnd/clock"
)

// Config selects which monitors judge a history and how it is generated.
type Config struct {
	Maturity   int32
	MinSteps   int
	MaxSteps   int
	Balance    bool // C01: Balance grid, UnspentOutputs, OutputsToWatch, unmined set
	Details    bool // C13: TxDetails / UniqueTxDetails / RangeTransactions / PreviousPkScripts
	Order      bool // C14: UnminedTxs parents-first
	Path       bool // C02: direct construction comparison
	PathEvery  int  // 1-in-n prefixes get a path comparison (always after disconnect/conflict removal)
	Leases     bool // C12: lease events + lease model under a fake clock
	ReorgHeavy bool // raise disconnect / re-mine weights
	Reopen     bool // occasionally close and reopen the store (restart)
	// FaultSweep (C10): every mutating op is first run with the k-th write
	// failing, for every k, each attempt rolled back and compared.
	FaultSweep bool
	OnEvent    func(kind string)
}

// Result of one history.
type Result struct {
	Diff      *Diff
	Events    []string
	Steps     int
	Stats     map[string]int
	StateSigs []string
	Universe  int
	Shape     string
}

type runner struct {
	cfg  Config
	r    *rand.Rand
	m    *Model
	g    *Gen
	st   *Store
	dir  string
	clk  *clock.TestClock
	res  *Result
	ids  [][32]byte
	seed int64
}

func (x *runner) ev(format string, a ...any) {
	x.res.Events = append(x.res.Events, fmt.Sprintf(format, a...))
}
func (x *runner) hit(k string, n int) { x.res.Stats[k] += n }

func insStr(t *Tx) string {
	s := ""
	for i, in := range t.Msg.TxIn {
		if i > 0 {
			s += ","
		}
		s += fmt.Sprintf("%s:%d", in.PreviousOutPoint.Hash.String()[:8], in.PreviousOutPoint.Index)
	}
	return s
}
func credStr(t *Tx) string {
	var idx []int
	for i := range t.Credits {
		idx = append(idx, int(i))
	}
	sort.Ints(idx)
	s := ""
	for _, i := range idx {
		s += fmt.Sprintf("%d", i)
		if t.Credits[uint32(i)] {
			s += "c"
		}
		s += " "
	}
	return s
}

// RunHistory generates and executes one history under the configured
// monitors. It stops at the first disagreement.
func RunHistory(cfg Config, seed int64, dir string) *Result {
	r := rand.New(rand.NewSource(seed))
	if cfg.Maturity == 0 {
		cfg.Maturity = int32(3 + r.Intn(3))
	}
	m := NewModel(cfg.Maturity)
	x := &runner{cfg: cfg, r: r, m: m, g: NewGen(r, m), dir: dir, seed: seed,
		res: &Result{Stats: map[string]int{}}, ids: [][32]byte{{}, {1}, {2}, {0xff, 0xff}}}
	st, err := NewStore(dir, fmt.Sprintf("h%d-%d.db", seed, os.Getpid()), cfg.Maturity)
	if err != nil {
		x.res.Diff = &Diff{"harness:create-store", err.Error()}
		return x.res
	}
	x.st = st
	defer func() { x.st.Close() }()
	if cfg.Leases {
		x.clk = clock.NewTestClock(m.Now)
		installClock(st.S, x.clk)
		st.OnOpen = func(s *wtxmgr.Store) { installClock(s, x.clk) }
	}
	nsteps := cfg.MinSteps + r.Intn(cfg.MaxSteps-cfg.MinSteps+1)
	for step := 0; step < nsteps; step++ {
		forcePath := false
		kind := x.step(&forcePath)
		if x.res.Diff != nil {
			return x.res
		}
		if kind == "" {
			continue
		}
		x.res.Steps++
		x.hit("ev:"+kind, 1)
		if cfg.OnEvent != nil {
			cfg.OnEvent(kind)
		}
		if d := x.check(forcePath); d != nil {
			x.res.Diff = d
			return x.res
		}
		x.res.StateSigs = append(x.res.StateSigs, m.StateHash())
	}
	x.res.Universe = len(x.g.Universe)
	return x.res
}

// sweep runs op under the fault sweep (if enabled), then fault-free.
func (x *runner) sweep(name string, op func() error) error {
	if !x.cfg.FaultSweep {
		return op()
	}
	before := x.st.Surface(x.m, x.g.Universe)
	for k := 1; ; k++ {
		x.st.DB.FailAt = k
		err := op()
		fired := x.st.DB.Fired
		lf := x.st.DB.LastFailed
		x.st.DB.FailAt = 0
		if !fired {
			// fault-free run (this is the real application of the event)
			x.hit("sweep-ops", 1)
			return err
		}
		x.hit("faults-injected", 1)
		x.hit("fault@"+name+":"+lf.Op, 1)
		if err == nil {
			return &Diff{"swallowed-write-error:" + name, fmt.Sprintf("%s returned nil (and its transaction committed) although its write #%d failed (%s in bucket %q)", name, k, lf.Op, lf.Path)}
		}
		after := x.st.Surface(x.m, x.g.Universe)
		if d := DiffSurfaces(before, after); d != nil {
			return &Diff{"state-changed-after-rolled-back-fault:" + name, fmt.Sprintf("after %s failed at write #%d (%s %q) and was rolled back: %s", name, k, lf.Op, lf.Path, d.What)}
		}
		if k > 5000 {
			return &Diff{"harness:sweep-runaway", name}
		}
	}
}

func (x *runner) fail(err error, what string) {
	if d, ok := err.(*Diff); ok {
		x.res.Diff = d
		return
	}
	x.res.Diff = &Diff{"op-error:" + what, fmt.Sprintf("%s returned error: %v", what, err)}
}

func (x *runner) newBlock(step int) *Block {
	gap := int32(1)
	if x.r.Intn(4) == 0 {
		gap += int32(x.r.Intn(3)) // blocks without wallet transactions in between
	}
	h := x.m.Tip + gap
	b := &Block{Height: h, Time: time.Unix(int64(1700000000+int(h)*600+step), 0)}
	b.Hash = chainhash.Hash{0xbb, byte(step), byte(x.seed), byte(h), byte(x.r.Intn(256)), byte(x.seed >> 8)}
	return b
}

func (x *runner) mine(step int, order []*Tx, b *Block, forcePath *bool) {
	// the wallet records a block's relevant transactions in ONE database
	// transaction: a third of the blocks with more than one transaction are
	// delivered that way (judged once, after the whole block)
	if len(order) > 1 && !x.cfg.FaultSweep && x.r.Intn(3) == 0 {
		x.ev("block %d blk=%s: %d transactions recorded in one database transaction", b.Height, b.Hash.String()[:8], len(order))
		for _, t := range order {
			x.ev("mine %s @%d blk=%s cb=%v ins=[%s] credits=[%s]", t.Short(), b.Height, b.Hash.String()[:8], t.Coinbase, insStr(t), credStr(t))
		}
		err := x.st.Update(func(ns walletdb.ReadWriteBucket) error {
			for _, t := range order {
				if err := x.st.InsertIn(ns, t, b); err != nil {
					return err
				}
			}
			return nil
		})
		if err != nil {
			x.fail(err, "InsertTx(mined, whole block)")
			return
		}
		for _, t := range order {
			if k, ok := x.m.Known[t.Hash]; ok && k.Height == -1 {
				x.hit("unmined-became-mined", 1)
			}
			if rm := x.m.ApplyConfirm(t, b); rm > 0 {
				x.hit("conflict-removed-txs", rm)
				*forcePath = true
			}
			if t.Coinbase {
				x.hit("coinbase-mined", 1)
			}
		}
		x.hit("blocks-recorded-in-one-database-transaction", 1)
		if d := x.check(false); d != nil {
			x.res.Diff = d
		}
		return
	}
	for _, t := range order {
		x.ev("mine %s @%d blk=%s cb=%v ins=[%s] credits=[%s]", t.Short(), b.Height, b.Hash.String()[:8], t.Coinbase, insStr(t), credStr(t))
		if err := x.sweep("insert-mined", func() error { return x.st.Insert(t, b) }); err != nil {
			x.fail(err, "InsertTx(mined)")
			return
		}
		wasUnmined := false
		if k, ok := x.m.Known[t.Hash]; ok && k.Height == -1 {
			wasUnmined = true
		}
		if rm := x.m.ApplyConfirm(t, b); rm > 0 {
			x.hit("conflict-removed-txs", rm)
			*forcePath = true
		}
		if wasUnmined {
			x.hit("unmined-became-mined", 1)
		}
		if t.Coinbase {
			x.hit("coinbase-mined", 1)
		}
		// judge after every transaction of the block (every prefix)
		if d := x.check(false); d != nil {
			x.res.Diff = d
			return
		}
	}
}

func (x *runner) step(forcePath *bool) string {
	r, m, g := x.r, x.m, x.g
	w := []int{30, 22, 14, 8, 6, 5, 5, 4} // see, mine, rollback, abandon, redeliver, direct-mined-conflict, re-add credits, reopen
	if x.cfg.ReorgHeavy {
		w = []int{24, 24, 26, 6, 6, 6, 4, 4}
	}
	if !x.cfg.Reopen {
		w[7] = 0
	}
	if x.cfg.Leases {
		w = append(w, 18, 10, 12, 4) // lease, release, clock, sweep
		w[2] = 8
	}
	tot := 0
	for _, v := range w {
		tot += v
	}
	k := r.Intn(tot)
	choice := 0
	for i, v := range w {
		if k < v {
			choice = i
			break
		}
		k -= v
	}
	switch choice {
	case 0: // unconfirmed transaction seen
		t := g.NewTx(false, 4)
		conflict := false
		for _, in := range t.Msg.TxIn {
			if m.Spent(in.PreviousOutPoint) {
				conflict = true
			}
		}
		x.ev("see %s ins=[%s] credits=[%s]", t.Short(), insStr(t), credStr(t))
		if err := x.sweep("insert-unmined", func() error { return x.st.Insert(t, nil) }); err != nil {
			x.fail(err, "InsertTx(unmined)")
			return ""
		}
		m.ApplySee(t)
		if conflict {
			x.hit("unmined-conflict-created", 1)
		}
		return "see"
	case 1: // transactions confirmed in a block
		order := g.PickBlockTxs(3, r.Intn(2) == 0)
		if len(order) == 0 {
			// an empty block still advances the tip
			m.Tip++
			x.ev("tip -> %d (block without wallet transactions)", m.Tip)
			return "emptyblock"
		}
		b := x.newBlock(len(x.res.Events))
		x.mine(len(x.res.Events), order, b, forcePath)
		return "mine"
	case 2: // blocks disconnected
		if len(m.Blocks) == 0 {
			return ""
		}
		var hgt int32
		switch r.Intn(5) {
		case 0:
			hgt = m.Top() + 1 + int32(r.Intn(2)) // above every record: no-op for the store
		case 1:
			hgt = m.Blocks[0].Height // everything
		default:
			hgt = m.Blocks[r.Intn(len(m.Blocks))].Height
			if r.Intn(4) == 0 && hgt > 1 {
				hgt-- // a height inside a gap
			}
		}
		x.ev("disconnect >= %d", hgt)
		if err := x.sweep("rollback", func() error { return x.st.Rollback(hgt) }); err != nil {
			x.fail(err, "Rollback")
			return ""
		}
		moved, removed := m.ApplyDisconnect(hgt)
		x.hit("rollback-moved-to-unmined", moved)
		x.hit("rollback-removed-coinbase-chain-txs", removed)
		if m.Tip < m.Top() {
			m.Tip = m.Top()
		}
		*forcePath = true
		if r.Intn(3) == 0 {
			// repeated delivery of the same disconnect
			x.ev("disconnect >= %d (repeated)", hgt)
			if err := x.st.Rollback(hgt); err != nil {
				x.fail(err, "Rollback(repeated)")
				return ""
			}
			x.hit("repeated-events", 1)
		}
		return "disconnect"
	case 3: // abandon
		if r.Intn(4) == 0 {
			// repeated delivery: abandon a transaction that was already
			// abandoned / removed (no longer known). Must be a no-op.
			var gone []*Tx
			for h, t := range g.Universe {
				if _, ok := m.Known[h]; !ok && !t.Coinbase {
					gone = append(gone, t)
				}
			}
			if len(gone) > 0 {
				sort.Slice(gone, func(i, j int) bool { return gone[i].Seq < gone[j].Seq })
				t := gone[r.Intn(len(gone))]
				// two times in three, aimed: a forgotten transaction one of whose inputs
				// is now spent by a DIFFERENT unconfirmed transaction (the survivor of a
				// conflict): removing the forgotten one again must not touch the survivor
				if r.Intn(3) != 0 {
					spentByUnmined := map[wire.OutPoint]bool{}
					for _, u := range m.Unmined() {
						for _, in := range u.Msg.TxIn {
							spentByUnmined[in.PreviousOutPoint] = true
						}
					}
					var aimed []*Tx
					for _, gt := range gone {
						for _, in := range gt.Msg.TxIn {
							if spentByUnmined[in.PreviousOutPoint] {
								aimed = append(aimed, gt)
								break
							}
						}
					}
					if len(aimed) > 0 {
						t = aimed[r.Intn(len(aimed))]
						x.hit("abandon-of-forgotten-tx-whose-input-a-survivor-spends", 1)
					}
				}
				x.ev("abandon %s again (already forgotten)", t.Short())
				if err := x.sweep("abandon", func() error { return x.st.Abandon(t) }); err != nil {
					x.fail(err, "RemoveUnminedTx(repeated)")
					return ""
				}
				x.hit("repeated-events", 1)
				x.hit("abandon-of-forgotten-tx", 1)
				return "abandon-again"
			}
		}
		un := m.Unmined()
		if len(un) == 0 {
			return ""
		}
		t := un[r.Intn(len(un))]
		x.ev("abandon %s", t.Short())
		if err := x.sweep("abandon", func() error { return x.st.Abandon(t) }); err != nil {
			x.fail(err, "RemoveUnminedTx")
			return ""
		}
		if n := m.ApplyAbandon(t); n > 1 {
			x.hit("abandon-removed-descendants", n-1)
		}
		*forcePath = true
		return "abandon"
	case 4: // repeated delivery of a known transaction
		var known []*Tx
		for _, t := range m.Known {
			known = append(known, t)
		}
		if len(known) == 0 {
			return ""
		}
		sort.Slice(known, func(i, j int) bool { return known[i].Seq < known[j].Seq })
		t := known[r.Intn(len(known))]
		if t.Height == -1 || r.Intn(2) == 0 {
			x.ev("re-see %s as unconfirmed (currently h=%d)", t.Short(), t.Height)
			if err := x.st.Insert(t, nil); err != nil {
				x.fail(err, "InsertTx(re-see)")
				return ""
			}
		} else {
			b := m.blockAt(t.Height)
			x.ev("re-deliver %s in its block %d", t.Short(), b.Height)
			if err := x.st.Insert(t, b); err != nil {
				x.fail(err, "InsertTx(re-deliver)")
				return ""
			}
		}
		x.hit("repeated-events", 1)
		return "redeliver"
	case 5: // a brand-new transaction confirmed directly, conflicting with unmined ones
		t := g.NewTx(false, 1)
		conflict := false
		ok := true
		for _, in := range t.Msg.TxIn {
			for _, s := range m.Spenders(in.PreviousOutPoint) {
				if s.Height != -1 {
					ok = false
				} else {
					conflict = true
				}
			}
			if p, kn := m.Known[in.PreviousOutPoint.Hash]; kn && p.Height == -1 {
				ok = false // parent unconfirmed: a block could not contain it
			}
		}
		if !ok {
			delete(g.Universe, t.Hash)
			return ""
		}
		b := x.newBlock(len(x.res.Events))
		if conflict {
			x.hit("confirmed-double-spend", 1)
		}
		x.mine(len(x.res.Events), []*Tx{t}, b, forcePath)
		return "mine-direct"
	case 6: // repeated credit marking
		var known []*Tx
		for _, t := range m.Known {
			if len(t.Credits) > 0 {
				known = append(known, t)
			}
		}
		if len(known) == 0 {
			return ""
		}
		sort.Slice(known, func(i, j int) bool { return known[i].Seq < known[j].Seq })
		t := known[r.Intn(len(known))]
		var b *Block
		if t.Height != -1 {
			b = m.blockAt(t.Height)
		}
		x.ev("re-mark credits of %s", t.Short())
		if err := x.st.ReAddCredits(t, b); err != nil {
			x.fail(err, "AddCredit(repeated)")
			return ""
		}
		x.hit("repeated-events", 1)
		return "recredit"
	case 7: // restart
		x.ev("close and reopen the store")
		if err := x.st.Reopen(); err != nil {
			x.fail(err, "reopen")
			return ""
		}
		return "reopen"
	case 8:
		return x.leaseOp()
	case 9:
		return x.releaseOp()
	case 10:
		return x.clockOp()
	case 11:
		x.ev("sweep expired leases")
		if err := x.sweep("delete-expired", func() error {
			return x.st.Update(func(ns walletdb.ReadWriteBucket) error { return x.st.S.DeleteExpiredLockedOutputs(ns) })
		}); err != nil {
			x.fail(err, "DeleteExpiredLockedOutputs")
			return ""
		}
		return "sweep"
	}
	return ""
}

// check runs the enabled monitors against the current state.
func (x *runner) check(forcePath bool) *Diff {
	m, st := x.m, x.st
	if x.cfg.Balance || x.cfg.Leases {
		d, q := st.CompareBalance(m)
		x.hit("balance-queries", q)
		if d != nil {
			return d
		}
		if d := st.CompareUnspent(m); d != nil {
			return d
		}
		if d := st.CompareUnminedSet(m); d != nil {
			return d
		}
	}
	if x.cfg.Leases {
		if d := x.compareLeases(); d != nil {
			return d
		}
	}
	if x.cfg.Details {
		d, n := st.CompareDetails(m, x.g.Universe)
		x.hit("detail-lookups", n)
		if d != nil {
			return d
		}
		d, n = st.CompareRanges(m, x.r, 3)
		x.hit("range-queries", n)
		if d != nil {
			return d
		}
	}
	if x.cfg.Order {
		d, e := st.CheckUnminedOrder(m)
		x.hit("unmined-dependency-edges-checked", e)
		if d != nil {
			return d
		}
	}
	if x.cfg.Path && (forcePath || (x.cfg.PathEvery > 0 && x.r.Intn(x.cfg.PathEvery) == 0)) {
		if d := x.comparePath(); d != nil {
			return d
		}
		x.hit("path-comparisons", 1)
	}
	return nil
}

// comparePath builds a second store directly from the model's current facts
// and compares the complete observable surface of both stores (C02).
func (x *runner) comparePath() *Diff {
	m := x.m
	d2, err := NewStore(x.dir, fmt.Sprintf("direct%d-%d-%d.db", x.seed, len(x.res.Events), os.Getpid()), m.Maturity)
	if err != nil {
		return &Diff{"harness:create-store", err.Error()}
	}
	defer d2.Close()
	if x.clk != nil {
		installClock(d2.S, x.clk)
	}
	for _, b := range m.Blocks {
		nb := &Block{Height: b.Height, Hash: b.Hash, Time: b.Time}
		for _, hh := range b.Txs {
			mt, ok := m.Known[hh]
			if !ok || mt.Height != b.Height {
				continue
			}
			if err := d2.Insert(mt, nb); err != nil {
				return &Diff{"direct-construction:error", fmt.Sprintf("inserting %s@%d into a fresh store: %v", mt.Short(), b.Height, err)}
			}
		}
	}
	for _, mt := range m.Unmined() {
		if err := d2.Insert(mt, nil); err != nil {
			return &Diff{"direct-construction:error", fmt.Sprintf("inserting unmined %s into a fresh store: %v", mt.Short(), err)}
		}
	}
	// leases in force are facts too
	for op, le := range m.Leases {
		if _, ok := m.LeaseActive(op); !ok {
			continue
		}
		if t, ok := m.Known[op.Hash]; !ok || t == nil {
			continue
		}
		op, le := op, le
		d2.Update(func(ns walletdb.ReadWriteBucket) error {
			_, err := d2.S.LockOutput(ns, wtxmgr.LockID(le.ID), op, le.Exp.Sub(m.Now))
			return err
		})
	}
	a := x.st.Surface(m, x.g.Universe)
	b := d2.Surface(m, x.g.Universe)
	return DiffSurfaces(a, b)
}

// --- leases (C12) ---

func (x *runner) allOutpoints() []wire.OutPoint {
	var ops []wire.OutPoint
	for _, t := range x.g.Universe { // includes outputs of forgotten transactions
		for i := range t.Msg.TxOut {
			ops = append(ops, wire.OutPoint{Hash: t.Hash, Index: uint32(i)})
		}
	}
	sort.Slice(ops, func(i, j int) bool { return ops[i].String() < ops[j].String() })
	ops = append(ops, wire.OutPoint{Hash: chainhash.Hash{0x77}, Index: 1})
	return ops
}

// leaseable: the wallet "knows" the output: a credit of a known transaction
// that no confirmed transaction spends.
func (x *runner) leaseable(op wire.OutPoint) (known bool, undefined bool) {
	t, ok := x.m.Known[op.Hash]
	if !ok {
		return false, false
	}
	if _, c := t.Credits[op.Index]; !c {
		return false, false
	}
	if x.m.SpentByMined(op) {
		// credited but already spent by a confirmed transaction: not asserted either way
		return false, true
	}
	return true, false
}

func (x *runner) pickOutpoint() wire.OutPoint {
	ops := x.allOutpoints()
	// bias towards credits
	if x.r.Intn(4) != 0 {
		cs := x.m.Credits()
		if len(cs) > 0 {
			return cs[x.r.Intn(len(cs))].Op
		}
	}
	return ops[x.r.Intn(len(ops))]
}

func (x *runner) leaseOp() string {
	op := x.pickOutpoint()
	id := x.ids[x.r.Intn(len(x.ids))]
	dur := time.Duration(1+x.r.Intn(20)) * time.Second
	if x.r.Intn(5) == 0 {
		dur += time.Duration(x.r.Intn(1e9)) // sub-second part
	}
	var exp time.Time
	var opErr error
	err := x.sweep("lock-output", func() error {
		opErr = x.st.Update(func(ns walletdb.ReadWriteBucket) error {
			var e error
			exp, e = x.st.S.LockOutput(ns, wtxmgr.LockID(id), op, dur)
			return e
		})
		return opErr
	})
	if d, ok := err.(*Diff); ok {
		x.res.Diff = d
		return ""
	}
	known, undef := x.leaseable(op)
	var want error
	if !known {
		want = wtxmgr.ErrUnknownOutput
	} else if le, a := x.m.LeaseActive(op); a && le.ID != id {
		want = wtxmgr.ErrOutputAlreadyLocked
	}
	x.ev("lease %s:%d id=%d dur=%v -> %v", op.Hash.String()[:8], op.Index, id[0], dur, err)
	if undef {
		// outcome not asserted; keep the model in step with what happened
		if err == nil {
			x.m.Leases[op] = Lease{ID: id, Exp: time.Unix(exp.Unix(), 0)}
		}
		return "lease"
	}
	if err != want {
		key := "lease:wrong-result"
		switch {
		case want == wtxmgr.ErrOutputAlreadyLocked && err == nil:
			key = "lease:other-id-could-lease"
		case want == wtxmgr.ErrUnknownOutput && err == nil:
			key = "lease:unknown-output-leased"
		case want == nil:
			key = "lease:refused"
		}
		x.res.Diff = &Diff{key, fmt.Sprintf("LockOutput(%s:%d, id %d) returned %v, lease model expects %v", op.Hash.String()[:8], op.Index, id[0], err, want)}
		return ""
	}
	if err == nil {
		if _, a := x.m.LeaseActive(op); a {
			x.hit("lease-extended-by-same-id", 1)
		}
		if !exp.Equal(x.m.Now.Add(dur)) {
			x.res.Diff = &Diff{"lease:returned-expiry", fmt.Sprintf("LockOutput returned expiry %v, want now+duration %v", exp, x.m.Now.Add(dur))}
			return ""
		}
		// effective expiry = the persisted whole second (DESIGN O-1)
		x.m.Leases[op] = Lease{ID: id, Exp: time.Unix(exp.Unix(), 0)}
		x.hit("leases-taken", 1)
	} else {
		x.hit("lease-refusals:"+err.Error(), 1)
	}
	return "lease"
}

func (x *runner) releaseOp() string {
	op := x.pickOutpoint()
	// prefer currently leased outputs
	var act []wire.OutPoint
	for o := range x.m.Leases {
		if _, a := x.m.LeaseActive(o); a {
			act = append(act, o)
		}
	}
	sort.Slice(act, func(i, j int) bool { return act[i].String() < act[j].String() })
	if len(act) > 0 && x.r.Intn(3) != 0 {
		op = act[x.r.Intn(len(act))]
	}
	id := x.ids[x.r.Intn(len(x.ids))]
	err := x.sweep("unlock-output", func() error {
		return x.st.Update(func(ns walletdb.ReadWriteBucket) error {
			return x.st.S.UnlockOutput(ns, wtxmgr.LockID(id), op)
		})
	})
	if d, ok := err.(*Diff); ok {
		x.res.Diff = d
		return ""
	}
	known, undef := x.leaseable(op)
	var want error
	if !known {
		want = wtxmgr.ErrUnknownOutput
	} else if le, a := x.m.LeaseActive(op); a && le.ID != id {
		want = wtxmgr.ErrOutputUnlockNotAllowed
	}
	x.ev("release %s:%d id=%d -> %v", op.Hash.String()[:8], op.Index, id[0], err)
	if undef {
		if err == nil {
			if le, a := x.m.LeaseActive(op); a && le.ID == id {
				delete(x.m.Leases, op)
			}
		}
		return "release"
	}
	if err != want {
		key := "release:wrong-result"
		if want == wtxmgr.ErrOutputUnlockNotAllowed && err == nil {
			key = "release:other-id-could-release"
		}
		x.res.Diff = &Diff{key, fmt.Sprintf("UnlockOutput(%s:%d, id %d) returned %v, lease model expects %v", op.Hash.String()[:8], op.Index, id[0], err, want)}
		return ""
	}
	if err == nil {
		if le, a := x.m.LeaseActive(op); a && le.ID == id {
			delete(x.m.Leases, op)
			x.hit("leases-released", 1)
		}
	} else {
		x.hit("release-refusals:"+err.Error(), 1)
	}
	return "release"
}

func (x *runner) clockOp() string {
	var exps []time.Time
	for op := range x.m.Leases {
		if le, a := x.m.LeaseActive(op); a {
			exps = append(exps, le.Exp)
		}
	}
	sort.Slice(exps, func(i, j int) bool { return exps[i].Before(exps[j]) })
	nt := x.m.Now.Add(time.Duration(1+x.r.Intn(5)) * time.Second)
	if len(exps) > 0 {
		e := exps[x.r.Intn(len(exps))]
		switch x.r.Intn(4) {
		case 0:
			nt = e.Add(-time.Nanosecond)
			x.hit("clock-probe:expiry-1ns", 1)
		case 1:
			nt = e
			x.hit("clock-probe:at-expiry", 1)
		case 2:
			nt = e.Add(time.Second)
			x.hit("clock-probe:expiry+1s", 1)
		case 3:
			nt = e.Add(time.Nanosecond)
			x.hit("clock-probe:expiry+1ns", 1)
		}
	}
	if nt.Before(x.m.Now) {
		return ""
	}
	x.m.Now = nt
	x.clk.SetTime(nt)
	x.ev("clock -> %d.%09d", nt.Unix(), nt.Nanosecond())
	return "clock"
}

func (x *runner) compareLeases() (d *Diff) {
	x.st.View(func(ns walletdb.ReadBucket) error {
		ll, err := x.st.S.ListLockedOutputs(ns)
		if err != nil {
			d = &Diff{"leases:error", err.Error()}
			return nil
		}
		var gs, ws []string
		for _, l := range ll {
			if _, ok := x.m.Known[l.Outpoint.Hash]; !ok {
				continue // output no longer exists: not compared
			}
			gs = append(gs, fmt.Sprintf("%s:%d id=%d exp=%d", l.Outpoint.Hash.String()[:8], l.Outpoint.Index, l.LockID[0], l.Expiration.Unix()))
		}
		for op := range x.m.Leases {
			if _, ok := x.m.Known[op.Hash]; !ok {
				continue
			}
			if le, a := x.m.LeaseActive(op); a {
				ws = append(ws, fmt.Sprintf("%s:%d id=%d exp=%d", op.Hash.String()[:8], op.Index, le.ID[0], le.Exp.Unix()))
			}
		}
		sort.Strings(gs)
		sort.Strings(ws)
		d = setDiff("leases", gs, ws)
		return nil
	})
	return
}
