package ledger

import (
	"math/rand"
	"sort"
	"time"

	"github.com/btcsuite/btcd/chaincfg/chainhash"
	"github.com/btcsuite/btcd/wire"
)

// Gen generates universe transactions against the current model state.
type Gen struct {
	R *rand.Rand
	M *Model
	N int
	// Universe is every transaction ever generated (known or not).
	Universe map[chainhash.Hash]*Tx
	Salt     byte
}

func NewGen(r *rand.Rand, m *Model) *Gen {
	return &Gen{R: r, M: m, Universe: map[chainhash.Hash]*Tx{}, Salt: byte(r.Intn(256))}
}

// spendable outpoints a validating node would let a new transaction spend:
// outputs of known transactions not spent by a mined transaction; immature
// coinbase outputs excluded; outputs already spent by an unmined transaction
// only sometimes (that makes a conflict group).
func (g *Gen) candidates(conflictOdds int) []wire.OutPoint {
	var cands []wire.OutPoint
	for _, t := range g.M.Known {
		if t.Coinbase && (t.Height == -1 || g.M.Tip-t.Height+1 < g.M.Maturity) {
			continue
		}
		for i := range t.Msg.TxOut {
			op := wire.OutPoint{Hash: t.Hash, Index: uint32(i)}
			sp := g.M.Spenders(op)
			mined := false
			for _, s := range sp {
				if s.Height != -1 {
					mined = true
				}
			}
			if mined {
				continue
			}
			if len(sp) > 0 && (conflictOdds == 0 || g.R.Intn(conflictOdds) != 0) {
				continue
			}
			cands = append(cands, op)
		}
	}
	sort.Slice(cands, func(i, j int) bool { return cands[i].String() < cands[j].String() })
	return cands
}

// foreignUnminedInputs: outpoints of unknown transactions that an unmined
// known transaction spends and no mined one does.
func (g *Gen) foreignUnminedInputs() []wire.OutPoint {
	var r []wire.OutPoint
	for _, t := range g.M.Known {
		if t.Coinbase || t.Height != -1 {
			continue
		}
		for _, in := range t.Msg.TxIn {
			op := in.PreviousOutPoint
			if _, kn := g.M.Known[op.Hash]; kn || g.M.SpentByMined(op) {
				continue
			}
			r = append(r, op)
		}
	}
	sort.Slice(r, func(i, j int) bool { return r[i].String() < r[j].String() })
	return r
}

// NewTx creates a fresh transaction. conflictOdds: 1-in-n chance per already
// unmined-spent output of being eligible again (0 = never conflict).
func (g *Gen) NewTx(coinbase bool, conflictOdds int) *Tx {
	g.N++
	tx := wire.NewMsgTx(2)
	if coinbase {
		tx.AddTxIn(wire.NewTxIn(&wire.OutPoint{Index: 0xffffffff}, []byte{byte(g.N), byte(g.N >> 8), g.Salt, 7}, nil))
	} else {
		cands := g.candidates(conflictOdds)
		nin := 1 + g.R.Intn(3)
		if g.R.Intn(8) == 0 {
			nin = 4 + g.R.Intn(3) // fan-in
		}
		used := map[wire.OutPoint]bool{}
		for i := 0; i < nin; i++ {
			if len(cands) > 0 && g.R.Intn(5) != 0 {
				var op wire.OutPoint
				if len(tx.TxIn) > 0 && g.R.Intn(4) == 0 {
					// prefer another output of the same parent (multi-edge)
					ph := tx.TxIn[0].PreviousOutPoint.Hash
					var same []wire.OutPoint
					for _, c := range cands {
						if c.Hash == ph && !used[c] {
							same = append(same, c)
						}
					}
					if len(same) > 0 {
						op = same[g.R.Intn(len(same))]
					} else {
						op = cands[g.R.Intn(len(cands))]
					}
				} else {
					op = cands[g.R.Intn(len(cands))]
				}
				if used[op] {
					continue
				}
				used[op] = true
				tx.AddTxIn(wire.NewTxIn(&op, nil, nil))
			} else {
				op := wire.OutPoint{Hash: chainhash.Hash{0xee, byte(g.N), byte(g.N >> 8), byte(i), g.Salt}, Index: uint32(g.R.Intn(3))}
				// sometimes conflict with an unconfirmed known transaction on an
				// outpoint of a transaction the wallet has never seen (e.g. a
				// sender's fee bump of an incoming payment)
				if conflictOdds > 0 && g.R.Intn(3) == 0 {
					if f := g.foreignUnminedInputs(); len(f) > 0 {
						op = f[g.R.Intn(len(f))]
					}
				}
				if used[op] {
					continue
				}
				used[op] = true
				tx.AddTxIn(wire.NewTxIn(&op, nil, nil))
			}
		}
		if len(tx.TxIn) == 0 {
			op := wire.OutPoint{Hash: chainhash.Hash{0xef, byte(g.N), byte(g.N >> 8), g.Salt}, Index: 0}
			tx.AddTxIn(wire.NewTxIn(&op, nil, nil))
		}
	}
	// a third of the transactions carry witness data (their wtxid differs from the
	// txid every outpoint refers to)
	if !coinbase && g.R.Intn(3) == 0 {
		for _, in := range tx.TxIn {
			in.Witness = wire.TxWitness{{byte(g.N), 0x30, g.Salt}, {0x02, byte(g.N >> 8)}}
		}
	}
	nout := 1 + g.R.Intn(4)
	if g.R.Intn(8) == 0 {
		nout = 5 + g.R.Intn(4) // fan-out
	}
	t := &Tx{Msg: tx, Credits: map[uint32]bool{}, Height: -1, Coinbase: coinbase, Recv: time.Unix(int64(1600000000+g.N*7), 0), Seq: g.N}
	for i := 0; i < nout; i++ {
		v := int64(g.R.Intn(5)) * 1000
		if g.R.Intn(6) != 0 {
			v += int64(1 + g.R.Intn(100000))
		}
		tx.AddTxOut(wire.NewTxOut(v, []byte{0x51, byte(g.N), byte(g.N >> 8), byte(i), g.Salt}))
		// credited outputs have positive value (property wording; DESIGN O-6)
		if v > 0 && g.R.Intn(3) != 0 {
			t.Credits[uint32(i)] = g.R.Intn(3) == 0
		}
	}
	if coinbase && len(t.Credits) == 0 {
		if tx.TxOut[0].Value == 0 {
			tx.TxOut[0].Value = 5000
		}
		t.Credits[0] = false
	}
	t.Hash = tx.TxHash()
	g.Universe[t.Hash] = t
	return t
}

// PickBlockTxs chooses a conflict-free, parents-first subset of the unmined
// transactions (plus optionally brand-new ones and a coinbase) for a new
// block, the way a validating node's block would look.
func (g *Gen) PickBlockTxs(skipOdds int, shuffle bool) []*Tx {
	var order []*Tx
	if g.R.Intn(3) == 0 {
		order = append(order, g.NewTx(true, 0))
	}
	unm := g.M.Unmined()
	if shuffle {
		// any order that still puts parents first: random priority, then
		// repeated scan
		g.R.Shuffle(len(unm), func(i, j int) { unm[i], unm[j] = unm[j], unm[i] })
	}
	spent := map[wire.OutPoint]bool{}
	inblk := map[chainhash.Hash]bool{}
	skipped := map[chainhash.Hash]bool{}
	for pass := 0; pass < 4; pass++ {
		for _, t := range unm {
			if inblk[t.Hash] || skipped[t.Hash] {
				continue
			}
			if pass == 0 && skipOdds > 0 && g.R.Intn(skipOdds) == 0 {
				skipped[t.Hash] = true
				continue
			}
			ok := true
			for _, in := range t.Msg.TxIn {
				if spent[in.PreviousOutPoint] {
					ok = false
				}
				if p, kn := g.M.Known[in.PreviousOutPoint.Hash]; kn && p.Height == -1 && !inblk[p.Hash] {
					ok = false
				}
				if p, kn := g.M.Known[in.PreviousOutPoint.Hash]; kn && p.Coinbase && g.M.Tip+1-p.Height+1 < g.M.Maturity {
					ok = false // would spend an immature coinbase in the new block
				}
				for _, s := range g.M.Spenders(in.PreviousOutPoint) {
					if s.Height != -1 {
						ok = false
					}
				}
			}
			if !ok {
				continue
			}
			for _, in := range t.Msg.TxIn {
				spent[in.PreviousOutPoint] = true
			}
			inblk[t.Hash] = true
			order = append(order, t)
		}
	}
	// the store is told about a block's transactions one by one, in whatever order
	// they are delivered: with a shuffled delivery the coinbase is not the first
	if shuffle && len(order) > 1 && order[0].Coinbase {
		k := 1 + g.R.Intn(len(order)-1)
		cb := order[0]
		copy(order, order[1:k+1])
		order[k] = cb
	}
	return order
}
