package ledger

import (
	"bytes"
	"fmt"
	"math/rand"
	"sort"
	"strings"

	"github.com/btcsuite/btcd/chaincfg/chainhash"
	"github.com/btcsuite/btcwallet/walletdb"
	"github.com/btcsuite/btcwallet/wtxmgr"
)

// Diff is a disagreement between store and model (or store and store).
type Diff struct {
	Key  string // structural signature
	What string
}

func (d *Diff) Error() string { return d.Key + ": " + d.What }

func setDiff(kind string, got, want []string) *Diff {
	g, w := map[string]bool{}, map[string]bool{}
	for _, x := range got {
		g[x] = true
	}
	for _, x := range want {
		w[x] = true
	}
	var extra, missing []string
	for _, x := range got {
		if !w[x] {
			extra = append(extra, x)
		}
	}
	for _, x := range want {
		if !g[x] {
			missing = append(missing, x)
		}
	}
	if len(extra) == 0 && len(missing) == 0 && len(got) == len(want) {
		return nil
	}
	dir := "differs"
	switch {
	case len(extra) > 0 && len(missing) == 0:
		dir = "store-has-extra"
	case len(missing) > 0 && len(extra) == 0:
		dir = "store-misses"
	case len(extra) == 0 && len(missing) == 0:
		dir = "duplicates"
	}
	return &Diff{Key: kind + ":" + dir, What: fmt.Sprintf("%s: store has extra %v, store misses %v (store %d entries, model %d)", kind, extra, missing, len(got), len(want))}
}

// BalanceGrid is the (minconf, syncHeight) grid queried after every event.
func (m *Model) BalanceGrid() (minconfs, syncs []int32) {
	mat := m.Maturity
	minconfs = []int32{0, 1, 2, 3, mat - 1, mat, mat + 1, mat + 7}
	tip := m.Tip
	if t := m.Top(); t > tip {
		tip = t
	}
	syncs = []int32{tip, tip + 1, tip + 2, tip + mat - 1, tip + mat, tip + mat + 3}
	return
}

// CompareBalance checks Balance over the grid (C01 first clause; with leases C12).
func (st *Store) CompareBalance(m *Model) (d *Diff, queries int) {
	mcs, shs := m.BalanceGrid()
	st.View(func(ns walletdb.ReadBucket) error {
		for _, mc := range mcs {
			if mc < 0 {
				continue
			}
			for _, sh := range shs {
				got, err := st.S.Balance(ns, mc, sh)
				queries++
				if err != nil {
					d = &Diff{"balance:error", fmt.Sprintf("Balance(%d,%d): %v", mc, sh, err)}
					return nil
				}
				if want := m.Balance(mc, sh); got != want {
					dir := "store-higher"
					if got < want {
						dir = "store-lower"
					}
					d = &Diff{"balance:" + dir, fmt.Sprintf("Balance(minconf=%d, syncHeight=%d) = %d, ledger truth %d (tip %d, top block %d)", mc, sh, got, want, m.Tip, m.Top())}
					return nil
				}
			}
		}
		return nil
	})
	return
}

func storeCreditStr(c wtxmgr.Credit) string {
	bh := "-"
	if c.Height != -1 {
		bh = c.BlockMeta.Hash.String()[:8]
	}
	return fmt.Sprintf("%s:%d amt=%d h=%d blk=%s cb=%v", c.Hash.String()[:10], c.Index, c.Amount, c.Height, bh, c.FromCoinBase)
}

// CompareUnspent checks UnspentOutputs (amount, block, coinbase flag, script)
// and OutputsToWatch.
func (st *Store) CompareUnspent(m *Model) (d *Diff) {
	st.View(func(ns walletdb.ReadBucket) error {
		us, err := st.S.UnspentOutputs(ns)
		if err != nil {
			d = &Diff{"unspent:error", err.Error()}
			return nil
		}
		var g []string
		for _, c := range us {
			g = append(g, storeCreditStr(c))
			if t := m.Known[c.Hash]; t != nil && int(c.Index) < len(t.Msg.TxOut) {
				if !bytes.Equal(c.PkScript, t.Msg.TxOut[c.Index].PkScript) {
					d = &Diff{"unspent:script", fmt.Sprintf("%v script %x", c.OutPoint, c.PkScript)}
					return nil
				}
				if c.Height != -1 {
					if b := m.blockAt(c.Height); b != nil && !c.BlockMeta.Time.Equal(b.Time) {
						d = &Diff{"unspent:blocktime", fmt.Sprintf("%v block time %v want %v", c.OutPoint, c.BlockMeta.Time, b.Time)}
						return nil
					}
				}
				if !c.Received.Equal(t.Recv) {
					d = &Diff{"unspent:received", fmt.Sprintf("%v received %v want %v", c.OutPoint, c.Received, t.Recv)}
					return nil
				}
			}
		}
		sort.Strings(g)
		if d = setDiff("unspent", g, m.Unspent()); d != nil {
			return nil
		}
		ws, err := st.S.OutputsToWatch(ns)
		if err != nil {
			d = &Diff{"watch:error", err.Error()}
			return nil
		}
		g = nil
		for _, c := range ws {
			g = append(g, fmt.Sprintf("%s:%d", c.Hash.String()[:10], c.Index))
			if t := m.Known[c.Hash]; t != nil && int(c.Index) < len(t.Msg.TxOut) && !bytes.Equal(c.PkScript, t.Msg.TxOut[c.Index].PkScript) {
				d = &Diff{"watch:script", fmt.Sprintf("%v script %x", c.OutPoint, c.PkScript)}
				return nil
			}
		}
		sort.Strings(g)
		d = setDiff("watch", g, m.Watch())
		return nil
	})
	return
}

// CompareUnminedSet checks UnminedTxHashes.
func (st *Store) CompareUnminedSet(m *Model) (d *Diff) {
	st.View(func(ns walletdb.ReadBucket) error {
		uh, err := st.S.UnminedTxHashes(ns)
		if err != nil {
			d = &Diff{"unmined:error", err.Error()}
			return nil
		}
		var g, w []string
		for _, x := range uh {
			g = append(g, x.String()[:10])
		}
		for _, t := range m.Unmined() {
			w = append(w, t.Hash.String()[:10])
		}
		sort.Strings(g)
		sort.Strings(w)
		d = setDiff("unmined-set", g, w)
		return nil
	})
	return
}

func storeDetailStr(d *wtxmgr.TxDetails) string {
	var cr, db []string
	for _, c := range d.Credits {
		cr = append(cr, fmt.Sprintf("c%d amt=%d spent=%v change=%v", c.Index, c.Amount, c.Spent, c.Change))
	}
	for _, x := range d.Debits {
		db = append(db, fmt.Sprintf("d%d amt=%d", x.Index, x.Amount))
	}
	bh := "-"
	if d.Block.Height != -1 {
		bh = d.Block.Hash.String()[:8]
	}
	return fmt.Sprintf("h=%d blk=%s credits=[%s] debits=[%s]", d.Block.Height, bh, strings.Join(cr, ";"), strings.Join(db, ";"))
}

// CompareDetails: TxDetails / UniqueTxDetails / PreviousPkScripts for every
// universe transaction (C13 direct lookup).
func (st *Store) CompareDetails(m *Model, universe map[chainhash.Hash]*Tx) (d *Diff, lookups int) {
	st.View(func(ns walletdb.ReadBucket) error {
		hashes := make([]chainhash.Hash, 0, len(universe))
		for h := range universe {
			hashes = append(hashes, h)
		}
		sort.Slice(hashes, func(i, j int) bool { return bytes.Compare(hashes[i][:], hashes[j][:]) < 0 })
		for _, hh := range hashes {
			hh := hh
			det, err := st.S.TxDetails(ns, &hh)
			lookups++
			if err != nil {
				d = &Diff{"details:error", fmt.Sprintf("TxDetails(%s): %v", hh.String()[:8], err)}
				return nil
			}
			mt, known := m.Known[hh]
			if !known {
				if det != nil {
					d = &Diff{"details:removed-tx-still-reported", fmt.Sprintf("tx %s is not known to the ledger any more but TxDetails reports %s", hh.String()[:8], storeDetailStr(det))}
					return nil
				}
				if u, _ := st.S.UniqueTxDetails(ns, &hh, nil); u != nil {
					d = &Diff{"details:removed-tx-still-reported", fmt.Sprintf("tx %s unknown but UniqueTxDetails(nil) reports it", hh.String()[:8])}
					return nil
				}
				continue
			}
			if det == nil {
				d = &Diff{"details:known-tx-missing", fmt.Sprintf("tx %s known to the ledger (%s) but TxDetails returns nil", hh.String()[:8], m.DetailStr(mt))}
				return nil
			}
			if g, w := storeDetailStr(det), m.DetailStr(mt); g != w {
				key := "details:mismatch"
				switch {
				case det.Block.Height != mt.Height:
					key = "details:wrong-status"
				case strings.Contains(g, "spent=true") != strings.Contains(w, "spent=true") || spentBits(g) != spentBits(w):
					key = "details:spent-flag"
				case g[strings.Index(g, "debits="):] != w[strings.Index(w, "debits="):]:
					key = "details:debits"
				}
				d = &Diff{key, fmt.Sprintf("tx %s TxDetails\n   store  %s\n   ledger %s", hh.String()[:8], g, w)}
				return nil
			}
			if !det.Received.Equal(mt.Recv) {
				d = &Diff{"details:received", fmt.Sprintf("tx %s received %v want %v", hh.String()[:8], det.Received, mt.Recv)}
				return nil
			}
			if det.MsgTx.TxHash() != hh {
				d = &Diff{"details:wrong-tx", fmt.Sprintf("tx %s: TxDetails returned tx %s", hh.String()[:8], det.MsgTx.TxHash())}
				return nil
			}
			// UniqueTxDetails: right block / wrong block / nil
			var blk *wtxmgr.Block
			if mt.Height != -1 {
				b := m.blockAt(mt.Height)
				blk = &wtxmgr.Block{Hash: b.Hash, Height: b.Height}
			}
			u, err := st.S.UniqueTxDetails(ns, &hh, blk)
			lookups++
			if err != nil || u == nil || storeDetailStr(u) != m.DetailStr(mt) {
				d = &Diff{"details:unique-lookup", fmt.Sprintf("tx %s UniqueTxDetails(current status): %v err=%v", hh.String()[:8], u != nil, err)}
				return nil
			}
			if mt.Height != -1 {
				if u, _ := st.S.UniqueTxDetails(ns, &hh, nil); u != nil {
					d = &Diff{"details:reported-twice", fmt.Sprintf("mined tx %s also reported as unmined", hh.String()[:8])}
					return nil
				}
				wrong := &wtxmgr.Block{Hash: chainhash.Hash{0x99, 0x98}, Height: mt.Height}
				if u, _ := st.S.UniqueTxDetails(ns, &hh, wrong); u != nil {
					d = &Diff{"details:wrong-block-lookup", fmt.Sprintf("tx %s reported for a block hash that never confirmed it", hh.String()[:8])}
					return nil
				}
			} else {
				for _, b := range m.Blocks {
					if u, _ := st.S.UniqueTxDetails(ns, &hh, &wtxmgr.Block{Hash: b.Hash, Height: b.Height}); u != nil {
						d = &Diff{"details:reported-twice", fmt.Sprintf("unmined tx %s also reported in block %d", hh.String()[:8], b.Height)}
						return nil
					}
				}
			}
			scripts, err := st.S.PreviousPkScripts(ns, &det.TxRecord, blk)
			lookups++
			if err != nil {
				d = &Diff{"prevscripts:error", err.Error()}
				return nil
			}
			want := m.DebitScripts(mt)
			if len(scripts) != len(want) {
				d = &Diff{"prevscripts:count", fmt.Sprintf("tx %s PreviousPkScripts returned %d scripts, ledger debits %d", hh.String()[:8], len(scripts), len(want))}
				return nil
			}
			for i := range want {
				if !bytes.Equal(scripts[i], want[i]) {
					d = &Diff{"prevscripts:script", fmt.Sprintf("tx %s script %d", hh.String()[:8], i)}
					return nil
				}
			}
		}
		return nil
	})
	return
}

func spentBits(s string) string {
	var b strings.Builder
	for _, f := range strings.Split(s, ";") {
		if strings.Contains(f, "spent=true") {
			b.WriteByte('1')
		} else if strings.Contains(f, "spent=false") {
			b.WriteByte('0')
		}
	}
	return b.String()
}

// CompareRanges: RangeTransactions over random [begin,end] pairs both ways.
func (st *Store) CompareRanges(m *Model, r *rand.Rand, extra int) (d *Diff, ranges int) {
	top := m.Top()
	pairs := [][2]int32{{0, -1}, {-1, 0}, {0, top}, {top, 0}, {-1, -1}}
	for i := 0; i < extra; i++ {
		a, b := int32(r.Intn(int(top)+3))-1, int32(r.Intn(int(top)+3))-1
		pairs = append(pairs, [2]int32{a, b})
	}
	norm := func(x int32) int64 {
		if x < 0 {
			return 1 << 40
		}
		return int64(x)
	}
	st.View(func(ns walletdb.ReadBucket) error {
		for _, p := range pairs {
			ranges++
			begin, end := p[0], p[1]
			cnt := map[chainhash.Hash]int{}
			var order []int64
			var bad *Diff
			err := st.S.RangeTransactions(ns, begin, end, func(ds []wtxmgr.TxDetails) (bool, error) {
				if len(ds) == 0 {
					bad = &Diff{"range:empty-callback", "callback invoked with zero transactions"}
					return true, nil
				}
				h0 := ds[0].Block.Height
				for _, dd := range ds {
					cnt[dd.Hash]++
					if dd.Block.Height != h0 {
						bad = &Diff{"range:mixed-block", "one callback mixes blocks"}
					}
					mt, ok := m.Known[dd.Hash]
					if !ok {
						bad = &Diff{"range:removed-tx-still-reported", fmt.Sprintf("range [%d,%d] reports tx %s which the ledger does not know", begin, end, dd.Hash.String()[:8])}
						return true, nil
					}
					dd := dd
					if g, w := storeDetailStr(&dd), m.DetailStr(mt); g != w {
						bad = &Diff{"range:details", fmt.Sprintf("range [%d,%d] tx %s\n   store  %s\n   ledger %s", begin, end, dd.Hash.String()[:8], g, w)}
						return true, nil
					}
				}
				order = append(order, norm(h0))
				return false, nil
			})
			if err != nil {
				d = &Diff{"range:error", err.Error()}
				return nil
			}
			if bad != nil {
				d = bad
				return nil
			}
			// expected membership
			lo, hi := norm(begin), norm(end)
			fwd := lo <= hi
			if !fwd {
				lo, hi = hi, lo
			}
			for hh, t := range m.Known {
				h := norm(t.Height)
				in := h >= lo && h <= hi
				// unmined is included iff begin<0 or end<0
				if t.Height == -1 {
					in = begin < 0 || end < 0
				} else if begin < 0 && end < 0 {
					// both mempool: block range [maxint,maxint] contains no block
					in = false
				}
				if in && cnt[hh] != 1 {
					key := "range:known-tx-missing"
					if cnt[hh] > 1 {
						key = "range:reported-twice"
					}
					d = &Diff{key, fmt.Sprintf("range [%d,%d]: tx %s (h=%d) reported %d times, want once", begin, end, hh.String()[:8], t.Height, cnt[hh])}
					return nil
				}
				if !in && cnt[hh] != 0 {
					d = &Diff{"range:out-of-range-tx", fmt.Sprintf("range [%d,%d]: tx %s (h=%d) reported although outside", begin, end, hh.String()[:8], t.Height)}
					return nil
				}
			}
			// direction: ascending when begin<end (unmined last unless begin<0), else descending with unmined first
			for i := 1; i < len(order); i++ {
				a, b := order[i-1], order[i]
				okOrder := true
				if norm(begin) < norm(end) {
					okOrder = a < b
				} else if norm(begin) > norm(end) {
					okOrder = a > b
				}
				if !okOrder {
					d = &Diff{"range:direction", fmt.Sprintf("range [%d,%d]: block order %v", begin, end, order)}
					return nil
				}
			}
		}
		return nil
	})
	return
}

// CheckUnminedOrder: Store.UnminedTxs must contain every unmined transaction
// exactly once, parents first (C14 through the store).
func (st *Store) CheckUnminedOrder(m *Model) (d *Diff, edges int) {
	st.View(func(ns walletdb.ReadBucket) error {
		txs, err := st.S.UnminedTxs(ns)
		if err != nil {
			d = &Diff{"unminedtxs:error", err.Error()}
			return nil
		}
		pos := map[chainhash.Hash]int{}
		for i, t := range txs {
			h := t.TxHash()
			if _, dup := pos[h]; dup {
				d = &Diff{"unminedtxs:duplicate", fmt.Sprintf("tx %s twice", h.String()[:8])}
				return nil
			}
			pos[h] = i
		}
		un := m.Unmined()
		if len(un) != len(txs) {
			d = &Diff{"unminedtxs:count", fmt.Sprintf("UnminedTxs returned %d, ledger has %d unmined", len(txs), len(un))}
			return nil
		}
		for _, t := range un {
			if _, ok := pos[t.Hash]; !ok {
				d = &Diff{"unminedtxs:missing", fmt.Sprintf("unmined tx %s not returned", t.Short())}
				return nil
			}
		}
		for _, t := range txs {
			h := t.TxHash()
			for _, in := range t.TxIn {
				if pi, ok := pos[in.PreviousOutPoint.Hash]; ok {
					edges++
					if pi >= pos[h] {
						d = &Diff{"unminedtxs:child-before-parent", fmt.Sprintf("tx %s at %d spends %s at %d", h.String()[:8], pos[h], in.PreviousOutPoint.Hash.String()[:8], pi)}
						return nil
					}
				}
			}
		}
		return nil
	})
	return
}

// Surface dumps the complete observable surface of a store as strings, for
// store-vs-store comparison (C02).
func (st *Store) Surface(m *Model, universe map[chainhash.Hash]*Tx) map[string]string {
	out := map[string]string{}
	st.View(func(ns walletdb.ReadBucket) error {
		mcs, shs := m.BalanceGrid()
		for _, mc := range mcs {
			if mc < 0 {
				continue
			}
			for _, sh := range shs {
				b, err := st.S.Balance(ns, mc, sh)
				out[fmt.Sprintf("balance(%d,%d)", mc, sh)] = fmt.Sprintf("%d %v", b, err)
			}
		}
		us, _ := st.S.UnspentOutputs(ns)
		var g []string
		for _, c := range us {
			g = append(g, storeCreditStr(c)+fmt.Sprintf(" t=%d rcv=%d", c.BlockMeta.Time.Unix(), c.Received.Unix()))
		}
		sort.Strings(g)
		out["unspent"] = strings.Join(g, "\n")
		ws, _ := st.S.OutputsToWatch(ns)
		g = nil
		for _, c := range ws {
			g = append(g, c.OutPoint.String())
		}
		sort.Strings(g)
		out["watch"] = strings.Join(g, "\n")
		uh, _ := st.S.UnminedTxHashes(ns)
		g = nil
		for _, h := range uh {
			g = append(g, h.String())
		}
		sort.Strings(g)
		out["unmined"] = strings.Join(g, "\n")
		for hh := range universe {
			hh := hh
			det, err := st.S.TxDetails(ns, &hh)
			switch {
			case err != nil:
				out["tx:"+hh.String()[:10]] = "ERR " + err.Error()
			case det == nil:
				out["tx:"+hh.String()[:10]] = "nil"
			default:
				out["tx:"+hh.String()[:10]] = storeDetailStr(det) + fmt.Sprintf(" t=%d rcv=%d", det.Block.Time.Unix(), det.Received.Unix())
			}
		}
		var blocks []string
		st.S.RangeTransactions(ns, 0, -1, func(ds []wtxmgr.TxDetails) (bool, error) {
			var hs []string
			for _, dd := range ds {
				hs = append(hs, dd.Hash.String()[:10])
			}
			sort.Strings(hs)
			blocks = append(blocks, fmt.Sprintf("%d:%s", ds[0].Block.Height, strings.Join(hs, ",")))
			return false, nil
		})
		out["range"] = strings.Join(blocks, "\n")
		ll, _ := st.S.ListLockedOutputs(ns)
		g = nil
		for _, l := range ll {
			if _, ok := m.Known[l.Outpoint.Hash]; ok {
				g = append(g, fmt.Sprintf("%v id=%x exp=%d", l.Outpoint, l.LockID[:2], l.Expiration.Unix()))
			}
		}
		sort.Strings(g)
		out["leases"] = strings.Join(g, "\n")
		return nil
	})
	return out
}

// DiffSurfaces compares two surfaces.
func DiffSurfaces(a, b map[string]string) *Diff {
	var ks []string
	for k := range a {
		ks = append(ks, k)
	}
	for k := range b {
		if _, ok := a[k]; !ok {
			ks = append(ks, k)
		}
	}
	sort.Strings(ks)
	for _, k := range ks {
		if a[k] != b[k] {
			kind := k
			if i := strings.IndexAny(k, ":("); i > 0 {
				kind = k[:i]
			}
			return &Diff{"path-dependence:" + kind, fmt.Sprintf("%s\n   history-built store: %s\n   directly built store: %s", k, a[k], b[k])}
		}
	}
	return nil
}
