// Package evid: evidence files, verdict lines, known findings, replay files.
package evid
