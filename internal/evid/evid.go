package evid

import (
	"crypto/sha256"
	"encoding/hex"
	"encoding/json"
	"fmt"
	"os"
	"path/filepath"
	"runtime"
	"runtime/debug"
	"sort"
	"strconv"
	"strings"
	"sync"
	"sync/atomic"
	"time"
)

// Root is the /verif directory (VERIF_ROOT, set by ./check).
func Root() string {
	if r := os.Getenv("VERIF_ROOT"); r != "" {
		return r
	}
	return "/verif"
}

// Finding is one entry of KNOWN_FINDINGS.txt (see the header of that file).
type Finding struct {
	Property string `json:"property"`
	Key      string `json:"key"`
	Status   string `json:"status"` // "known" | "fixed"
	Commit   string `json:"commit,omitempty"`
	What     string `json:"what"`
}

// ParseFindings reads the line format of KNOWN_FINDINGS.txt:
//
//	known: property=<id> key=<violation key> <what fails>
//	fixed: property=<id> <commit> <what failed>
func ParseFindings(text string) []Finding {
	var out []Finding
	for _, line := range strings.Split(text, "\n") {
		line = strings.TrimSpace(line)
		var f Finding
		switch {
		case strings.HasPrefix(line, "known:"):
			f.Status = "known"
		case strings.HasPrefix(line, "fixed:"):
			f.Status = "fixed"
		default:
			continue
		}
		fields := strings.Fields(line[6:])
		if len(fields) < 3 || !strings.HasPrefix(fields[0], "property=") {
			continue
		}
		f.Property = strings.TrimPrefix(fields[0], "property=")
		if f.Status == "known" {
			if !strings.HasPrefix(fields[1], "key=") {
				continue
			}
			f.Key = strings.TrimPrefix(fields[1], "key=")
		} else {
			f.Commit = fields[1]
		}
		f.What = strings.Join(fields[2:], " ")
		out = append(out, f)
	}
	return out
}

type violation struct {
	Key    string `json:"key"`
	What   string `json:"what"`
	Replay string `json:"replay"`
}

// Run collects what one check execution observed.
type Run struct {
	Prop  string
	Level string
	Tier  string
	Seed  int64

	start time.Time
	mu    sync.Mutex

	evaluations int
	distinct    map[[8]byte]struct{}
	rule        string
	samples     []any
	counters    map[string]int64
	sets        map[string]map[string]struct{}
	required    map[string]int64
	assumptions []string
	trusted     []string
	extra       map[string]any
	exhaustive  bool

	known        []Finding
	knownPrinted map[string]int
	stopEarly    int32
	violations   []violation
	violKeys     map[string]int
	inconclusive []string

	replay  *Replay
	caseIdx map[int64]int
}

// Replay describes a replay request / a stored witness.
type Replay struct {
	Property string          `json:"property"`
	Tier     string          `json:"tier"`
	Seed     int64           `json:"seed"`
	CaseSeed int64           `json:"case_seed"`
	CaseIdx  int             `json:"case_index"`
	Phase    string          `json:"phase,omitempty"`
	Key      string          `json:"key"`
	What     string          `json:"what"`
	Detail   json.RawMessage `json:"detail,omitempty"`
}

// New starts a run. Tier comes from argv[1] (quick|thorough) or VERIF_TIER,
// seed from VERIF_SEED (default 1). With "--replay <file>" in argv the run is
// a replay of one stored case.
func New(prop, level string) *Run {
	r := &Run{
		Prop: prop, Level: level, Tier: "quick", Seed: 1,
		start:        time.Now(),
		distinct:     map[[8]byte]struct{}{},
		counters:     map[string]int64{},
		sets:         map[string]map[string]struct{}{},
		required:     map[string]int64{},
		extra:        map[string]any{},
		knownPrinted: map[string]int{},
		violKeys:     map[string]int{},
		caseIdx:      map[int64]int{},
	}
	if t := os.Getenv("VERIF_TIER"); t == "quick" || t == "thorough" {
		r.Tier = t
	}
	args := os.Args[1:]
	for i := 0; i < len(args); i++ {
		switch args[i] {
		case "quick", "thorough":
			r.Tier = args[i]
		case "--replay":
			if i+1 < len(args) {
				b, err := os.ReadFile(args[i+1])
				if err != nil {
					fmt.Println("INCONCLUSIVE cannot read replay file:", err)
					os.Exit(2)
				}
				var rp Replay
				if err := json.Unmarshal(b, &rp); err != nil {
					fmt.Println("INCONCLUSIVE bad replay file:", err)
					os.Exit(2)
				}
				r.replay = &rp
				r.Tier, r.Seed = rp.Tier, rp.Seed
				i++
			}
		}
	}
	if s := os.Getenv("VERIF_SEED"); s != "" && r.replay == nil {
		if v, err := strconv.ParseInt(s, 10, 64); err == nil {
			r.Seed = v
		}
	}
	if b, err := os.ReadFile(filepath.Join(Root(), "KNOWN_FINDINGS.txt")); err == nil {
		for _, f := range ParseFindings(string(b)) {
			if f.Property == prop {
				r.known = append(r.known, f)
			}
		}
	}
	// generous global watchdog: inconclusive, never a violation
	wd := 3 * time.Hour
	if v := os.Getenv("VERIF_WATCHDOG_S"); v != "" {
		if n, err := strconv.Atoi(v); err == nil {
			wd = time.Duration(n) * time.Second
		}
	}
	go func() {
		time.Sleep(wd)
		buf := make([]byte, 1<<22)
		n := runtime.Stack(buf, true)
		os.Stderr.Write(buf[:n])
		fmt.Printf("INCONCLUSIVE property=%s watchdog fired after %v\n", prop, wd)
		os.Exit(2)
	}()
	return r
}

func (r *Run) Quick() bool { return r.Tier != "thorough" }

// N picks the workload size for the tier.
func (r *Run) N(quick, thorough int) int {
	if r.Quick() {
		return quick
	}
	return thorough
}

// ReplayOf returns the stored case when the run is a replay.
func (r *Run) ReplayOf() *Replay { return r.replay }

// CaseSeed derives the PRNG seed of case i (pure function of seed, phase, i).
func (r *Run) CaseSeed(phase string, i int) int64 {
	h := sha256.Sum256([]byte(fmt.Sprintf("%s|%d|%s|%d", r.Prop, r.Seed, phase, i)))
	v := int64(0)
	for _, b := range h[:8] {
		v = v<<8 | int64(b)
	}
	if v < 0 {
		v = -v
	}
	return v
}

func (r *Run) Rule(s string)     { r.mu.Lock(); r.rule = s; r.mu.Unlock() }
func (r *Run) Exhaustive(b bool) { r.mu.Lock(); r.exhaustive = b; r.mu.Unlock() }
func (r *Run) Assume(s ...string) {
	r.mu.Lock()
	r.assumptions = append(r.assumptions, s...)
	r.mu.Unlock()
}
func (r *Run) Trusted(s ...string)     { r.mu.Lock(); r.trusted = append(r.trusted, s...); r.mu.Unlock() }
func (r *Run) Extra(k string, v any)   { r.mu.Lock(); r.extra[k] = v; r.mu.Unlock() }
func (r *Run) Require(f string, n int) { r.mu.Lock(); r.required[f] = int64(n); r.mu.Unlock() }

// Case records one evaluated case. sig identifies the case's *shape* (what
// makes it distinct); nontrivial says whether it counts as non-trivial.
func (r *Run) Case(sig string, nontrivial bool) {
	r.mu.Lock()
	defer r.mu.Unlock()
	r.evaluations++
	if nontrivial {
		h := sha256.Sum256([]byte(sig))
		var k [8]byte
		copy(k[:], h[:8])
		r.distinct[k] = struct{}{}
	}
}

// Hit adds n to a feature counter.
func (r *Run) Hit(feature string, n int) {
	r.mu.Lock()
	r.counters[feature] += int64(n)
	r.mu.Unlock()
}

// Distinct records a member of a named set (e.g. distinct model states).
func (r *Run) Distinct(set, member string) {
	r.mu.Lock()
	m := r.sets[set]
	if m == nil {
		m = map[string]struct{}{}
		r.sets[set] = m
	}
	if len(member) > 40 {
		h := sha256.Sum256([]byte(member))
		member = hex.EncodeToString(h[:10])
	}
	m[member] = struct{}{}
	r.mu.Unlock()
}

func (r *Run) Count(feature string) int64 {
	r.mu.Lock()
	defer r.mu.Unlock()
	return r.counters[feature]
}

// Sample keeps up to three written-out cases.
func (r *Run) Sample(v any) {
	r.mu.Lock()
	if len(r.samples) < 3 {
		r.samples = append(r.samples, v)
	}
	r.mu.Unlock()
}

func (r *Run) WantSample() bool {
	r.mu.Lock()
	defer r.mu.Unlock()
	return len(r.samples) < 3
}

// Inconclusive marks the run inconclusive (exit 2) with a reason.
func (r *Run) Inconclusive(why string) {
	r.mu.Lock()
	r.inconclusive = append(r.inconclusive, why)
	r.mu.Unlock()
}

// Violation reports a violation with structural signature key. If the key is
// listed as a known finding for this property a KNOWN-FINDING line is printed
// instead (once per key). caseSeed/phase identify the case for replay; detail
// is the witness (event list, observed vs expected).
func (r *Run) Violation(key, what, phase string, caseSeed int64, detail any) {
	r.mu.Lock()
	defer r.mu.Unlock()
	for _, f := range r.known {
		if f.Status == "known" && f.Key == key {
			if r.knownPrinted[key] == 0 {
				fmt.Printf("KNOWN-FINDING: property=%s %s [%s]\n", r.Prop, f.What, key)
			}
			r.knownPrinted[key]++
			return
		}
	}
	r.violKeys[key]++
	if r.violKeys[key] > 1 || len(r.violations) >= 8 {
		return
	}
	var raw json.RawMessage
	if detail != nil {
		if b, err := json.MarshalIndent(detail, "", " "); err == nil {
			raw = b
		} else {
			raw, _ = json.Marshal(fmt.Sprint(detail))
		}
	}
	idx, ok := r.caseIdx[caseSeed]
	if !ok {
		idx = -1
	}
	rp := Replay{Property: r.Prop, Tier: r.Tier, Seed: r.Seed, CaseSeed: caseSeed, CaseIdx: idx, Phase: phase, Key: key, What: what, Detail: raw}
	b, _ := json.MarshalIndent(rp, "", " ")
	h := sha256.Sum256(b)
	dir := filepath.Join(Root(), "replays")
	if os.Getenv("VERIF_NOEVIDENCE") != "" {
		dir = filepath.Join(Root(), ".work", "replays-trial")
	}
	os.MkdirAll(dir, 0o755)
	path := filepath.Join(dir, fmt.Sprintf("%s-%s.json", r.Prop, hex.EncodeToString(h[:6])))
	os.WriteFile(path, b, 0o644)
	r.violations = append(r.violations, violation{Key: key, What: what, Replay: path})
	w := what
	if len(w) > 600 {
		w = w[:600] + "..."
	}
	fmt.Printf("VIOLATION property=%s replay=%s key=%s :: %s\n", r.Prop, path, key, strings.ReplaceAll(w, "\n", " | "))
}

// Guard runs f and turns a panic into a violation (a panic raised under a
// workload the property admits is a failure of the code under test).
func (r *Run) Guard(phase string, caseSeed int64, f func()) {
	defer func() {
		if p := recover(); p != nil {
			st := string(debug.Stack())
			key := "panic"
			if strings.Contains(st, "/repo/") {
				key = "panic-in-repo:" + firstRepoFrame(st)
			} else {
				key = "panic-in-harness"
			}
			r.Violation(key, fmt.Sprintf("panic: %v", p), phase, caseSeed, map[string]any{"panic": fmt.Sprint(p), "stack": strings.Split(st, "\n")})
		}
	}()
	f()
}

// Blocked runs f in its own goroutine and waits for it.  If f has not returned
// after a grace period, the goroutine's STATE is inspected (runtime.Stack): when
// it is parked on a lock / semaphore with one of the given frames on its stack,
// and two inspections three seconds apart show the identical stack, f is
// declared blocked and the stack is returned (the goroutine is abandoned).
// Anything else (running, sleeping, I/O, a changing stack) just keeps waiting:
// slowness is never a verdict, only a persistent lock wait inside the code under
// test is.  Use for single-threaded scenarios, where nobody else can legitimately
// hold the lock.
func Blocked(frames []string, f func()) (stack string, blocked bool) {
	stack, blocked, _ = BlockedUntil(frames, f, nil)
	return stack, blocked
}

// BlockedUntil is Blocked with a way out for cases that were in flight when a
// liveness violation was declared elsewhere: once giveUp() reports true and f's
// goroutine is parked in ANY way with an unchanging stack (e.g. waiting on a
// channel for a helper goroutine that is the one stuck on the lock), f is
// abandoned without a verdict (gaveUp).
func BlockedUntil(frames []string, f func(), giveUp func() bool) (stack string, blocked, gaveUp bool) {
	done := make(chan struct{})
	idc := make(chan string, 1)
	go func() {
		defer close(done)
		b := make([]byte, 64)
		b = b[:runtime.Stack(b, false)]
		fs := strings.Fields(string(b))
		id := ""
		if len(fs) > 1 {
			id = fs[1]
		}
		idc <- id
		f()
	}()
	id := <-idc
	inspect := func() (string, bool) {
		buf := make([]byte, 4<<20)
		buf = buf[:runtime.Stack(buf, true)]
		for _, g := range strings.Split(string(buf), "\n\n") {
			if !strings.HasPrefix(g, "goroutine "+id+" [") {
				continue
			}
			hdr := g[:strings.Index(g, "\n")]
			parked := strings.Contains(hdr, "sync.Mutex.Lock") || strings.Contains(hdr, "sync.RWMutex") || strings.Contains(hdr, "semacquire") || strings.Contains(hdr, "sync.Cond.Wait")
			if !parked {
				return g, false
			}
			for _, fr := range frames {
				if strings.Contains(g, fr) {
					return g, true
				}
			}
			return g, false
		}
		return "", false
	}
	strip := func(g string) string { // drop the "N minutes" part of the header and argument values
		var out []string
		for i, l := range strings.Split(g, "\n") {
			if i == 0 {
				continue
			}
			if j := strings.Index(l, "("); j > 0 && !strings.HasPrefix(l, "\t") {
				l = l[:j]
			}
			out = append(out, l)
		}
		return strings.Join(out, "\n")
	}
	grace := time.After(10 * time.Second)
	select {
	case <-done:
		return "", false, false
	case <-grace:
	}
	for {
		g1, p1 := inspect()
		select {
		case <-done:
			return "", false, false
		case <-time.After(3 * time.Second):
		}
		g2, p2 := inspect()
		if strip(g1) == strip(g2) && g1 != "" {
			select {
			case <-done:
				return "", false, false
			default:
			}
			if p1 && p2 {
				return g2, true, false
			}
			if giveUp != nil && giveUp() && !strings.Contains(g2[:strings.Index(g2, "\n")], "[running") && !strings.Contains(g2[:strings.Index(g2, "\n")], "[runnable") {
				return g2, false, true
			}
		}
	}
}

// BlockedAny is Blocked for multi-goroutine scenarios (a complete wallet): f may
// itself be waiting on a channel for a wallet goroutine that is the one parked on
// a lock.  While f has not returned, every goroutine of the process is inspected
// every few seconds; a goroutine with one of the frames on its stack whose
// header reports a CONTINUOUS wait of at least one minute on a sync.Mutex /
// RWMutex ("[sync.Mutex.Lock, 1 minutes]", as printed by the runtime) is a lock
// nobody is going to release: lock hand-overs in the code under test last
// microseconds.  Its stack is returned.
func BlockedAny(frames []string, f func()) (stack string, blocked bool) {
	done := make(chan struct{})
	go func() {
		defer close(done)
		f()
	}()
	for {
		select {
		case <-done:
			return "", false
		case <-time.After(5 * time.Second):
		}
		buf := make([]byte, 16<<20)
		buf = buf[:runtime.Stack(buf, true)]
		for _, g := range strings.Split(string(buf), "\n\n") {
			nl := strings.Index(g, "\n")
			if nl < 0 || !strings.HasPrefix(g, "goroutine ") {
				continue
			}
			hdr := g[:nl]
			if !(strings.Contains(hdr, "sync.Mutex.Lock") || strings.Contains(hdr, "sync.RWMutex")) || !strings.Contains(hdr, " minutes]") {
				continue
			}
			for _, fr := range frames {
				if strings.Contains(g, fr) {
					select {
					case <-done:
						return "", false
					default:
					}
					return g, true
				}
			}
		}
	}
}

// PanicKey derives the structural signature of a recovered panic from its stack.
func PanicKey(stack string) string {
	if strings.Contains(stack, "/repo/") {
		return "panic-in-repo:" + firstRepoFrame(stack)
	}
	return "panic-in-harness"
}

func firstRepoFrame(st string) string {
	lines := strings.Split(st, "\n")
	for i, l := range lines {
		if strings.Contains(l, "/repo/") && i > 0 {
			fn := strings.TrimSpace(lines[i-1])
			if j := strings.LastIndex(fn, "("); j > 0 {
				fn = fn[:j]
			}
			if j := strings.LastIndex(fn, "/"); j >= 0 {
				fn = fn[j+1:]
			}
			return fn
		}
	}
	return "?"
}

// Parallel runs cases 0..n-1 of a phase on `workers` goroutines; each case is
// guarded and its id is written to .work before it starts so that a process
// death (fatal error) leaves a replayable trail.
func (r *Run) Parallel(phase string, n, workers int, f func(i int, caseSeed int64)) {
	if rp := r.replay; rp != nil {
		if rp.Phase == phase {
			r.Guard(phase, rp.CaseSeed, func() { f(rp.CaseIdx, rp.CaseSeed) })
		}
		return
	}
	if workers < 1 {
		workers = 1
	}
	dir := filepath.Join(Root(), ".work", r.Prop)
	os.MkdirAll(dir, 0o755)
	var wg sync.WaitGroup
	ch := make(chan int)
	for w := 0; w < workers; w++ {
		wg.Add(1)
		go func(w int) {
			defer wg.Done()
			cur := filepath.Join(dir, fmt.Sprintf("current-%s-%d", phase, w))
			for i := range ch {
				cs := r.CaseSeed(phase, i)
				r.mu.Lock()
				r.caseIdx[cs] = i
				r.mu.Unlock()
				os.WriteFile(cur, []byte(fmt.Sprintf(`{"property":%q,"tier":%q,"seed":%d,"case_seed":%d,"case_index":%d,"phase":%q,"key":"process-death","what":"process died while running this case"}`, r.Prop, r.Tier, r.Seed, cs, i, phase)), 0o644)
				r.Guard(phase, cs, func() { f(i, cs) })
			}
			os.Remove(cur)
		}(w)
	}
	for i := 0; i < n; i++ {
		if atomic.LoadInt32(&r.stopEarly) != 0 {
			break
		}
		ch <- i
	}
	close(ch)
	wg.Wait()
}

// StopEarly makes Parallel stop handing out further cases.  For monitors whose
// violation leaves the process in a state that would distort every later
// measurement (leaked spinning goroutines, a wallet that never stops): the
// verdict is already "violated", the remaining cases add nothing.
func (r *Run) StopEarly() { atomic.StoreInt32(&r.stopEarly, 1) }

// Stopping reports whether StopEarly was called.
func (r *Run) Stopping() bool { return atomic.LoadInt32(&r.stopEarly) == 1 }

// TempDir creates the run's scratch directory; without one the run cannot be
// trusted (relative paths would be shared between cases): inconclusive.
func (r *Run) TempDir(prefix string) string {
	dir, err := os.MkdirTemp("", prefix)
	if err != nil || dir == "" {
		r.Inconclusive(fmt.Sprintf("no scratch directory (TMPDIR=%q): %v", os.Getenv("TMPDIR"), err))
		os.Exit(r.Finish())
	}
	return dir
}

// Workers returns the parallelism to use (VERIF_WORKERS or NumCPU).
func Workers() int {
	if v := os.Getenv("VERIF_WORKERS"); v != "" {
		if n, err := strconv.Atoi(v); err == nil && n > 0 {
			return n
		}
	}
	return runtime.NumCPU()
}

// Finish writes the evidence file, prints the verdict and returns the exit
// code: 0 held, 1 violated, 2 inconclusive.
func (r *Run) Finish() int {
	r.mu.Lock()
	defer r.mu.Unlock()
	if r.replay == nil {
		for f, min := range r.required {
			if r.counters[f] < min {
				r.inconclusive = append(r.inconclusive, fmt.Sprintf("feature %q observed %d times, need >= %d", f, r.counters[f], min))
			}
		}
	}
	cov := map[string]any{
		"evaluations":         r.evaluations,
		"distinct_nontrivial": len(r.distinct),
		"rule":                r.rule,
		"samples":             r.samples,
		"observed":            r.counters,
		"trusted_base":        r.trusted,
	}
	if r.exhaustive {
		cov["exhaustive"] = true
	}
	if len(r.sets) > 0 {
		ds := map[string]int{}
		for k, v := range r.sets {
			ds[k] = len(v)
		}
		cov["distinct_sets"] = ds
	}
	for k, v := range r.extra {
		cov[k] = v
	}
	if len(r.knownPrinted) > 0 {
		cov["known_findings_hit"] = r.knownPrinted
	}
	if len(r.violations) > 0 {
		cov["violation_witnesses"] = r.violations
		vk := map[string]int{}
		for k, v := range r.violKeys {
			vk[k] = v
		}
		cov["violation_keys"] = vk
	}
	if len(r.inconclusive) > 0 {
		cov["inconclusive"] = r.inconclusive
	}
	if r.samples == nil {
		cov["samples"] = []any{}
	}
	nviol := 0
	for _, v := range r.violKeys {
		nviol += v
	}
	ev := map[string]any{
		"property_id": r.Prop,
		"tier":        r.Tier,
		"seed":        r.Seed,
		"level":       r.Level,
		"coverage":    cov,
		"assumptions": r.assumptions,
		"wall_s":      time.Since(r.start).Seconds(),
		"violations":  nviol,
	}
	if r.assumptions == nil {
		ev["assumptions"] = []string{}
	}
	if r.replay == nil && os.Getenv("VERIF_NOEVIDENCE") == "" {
		b, _ := json.MarshalIndent(ev, "", " ")
		dir := filepath.Join(Root(), "evidence")
		os.MkdirAll(dir, 0o755)
		os.WriteFile(filepath.Join(dir, r.Prop+".json"), append(b, '\n'), 0o644)
	}
	// summary line: what the monitors observed
	var ks []string
	for k := range r.counters {
		ks = append(ks, k)
	}
	sort.Strings(ks)
	var parts []string
	for _, k := range ks {
		parts = append(parts, fmt.Sprintf("%s=%d", k, r.counters[k]))
	}
	fmt.Printf("OBSERVED property=%s tier=%s seed=%d cases=%d distinct=%d wall=%.1fs %s\n", r.Prop, r.Tier, r.Seed, r.evaluations, len(r.distinct), time.Since(r.start).Seconds(), strings.Join(parts, " "))
	switch {
	case len(r.violations) > 0:
		fmt.Printf("VERDICT property=%s violated (%d witnesses, %d keys)\n", r.Prop, nviol, len(r.violKeys))
		return 1
	case len(r.inconclusive) > 0:
		for _, w := range r.inconclusive {
			fmt.Printf("INCONCLUSIVE property=%s %s\n", r.Prop, w)
		}
		return 2
	default:
		fmt.Printf("VERDICT property=%s held on everything explored\n", r.Prop)
		return 0
	}
}
