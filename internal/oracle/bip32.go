// Package oracle holds derivation and address oracles that are independent of
// the code under test: a direct HMAC-SHA512 / secp256k1 implementation of
// BIP32 (with btcsuite's legacy hardened-derivation rule) and address encoders
// written against btcutil constructors only.
package oracle

import (
	"crypto/hmac"
	"crypto/sha512"
	"encoding/binary"
	"fmt"

	"github.com/btcsuite/btcd/btcec/v2"
	"github.com/btcsuite/btcd/btcec/v2/schnorr"
	"github.com/btcsuite/btcd/btcutil"
	"github.com/btcsuite/btcd/chaincfg"
	"github.com/btcsuite/btcd/txscript"
)

const H = 0x80000000

// XKey is an extended key: private scalar (if Priv) or compressed public key.
type XKey struct {
	Key   [32]byte // private scalar, big endian (valid if Priv)
	Pub   [33]byte // compressed public key
	Chain [32]byte
	Priv  bool
}

func pubOfScalar(k [32]byte) [33]byte {
	_, pub := btcec.PrivKeyFromBytes(k[:])
	var r [33]byte
	copy(r[:], pub.SerializeCompressed())
	return r
}

// Master is BIP32 master key generation.
func Master(seed []byte) XKey {
	m := hmac.New(sha512.New, []byte("Bitcoin seed"))
	m.Write(seed)
	I := m.Sum(nil)
	var x XKey
	copy(x.Key[:], I[:32])
	copy(x.Chain[:], I[32:])
	x.Priv = true
	x.Pub = pubOfScalar(x.Key)
	return x
}

// LeadingZero reports whether the private key has a leading zero byte (the
// only case in which the legacy rule differs from BIP32).
func (x XKey) LeadingZero() bool { return x.Priv && x.Key[0] == 0 }

// Child derives child i. For hardened children of a private key, legacy=true
// applies btcsuite's DeriveNonStandard behaviour for an in-memory parent:
// leading zero bytes of the parent key are stripped and the remainder is
// LEFT-aligned in the 32-byte field of the HMAC input.
func (p XKey) Child(i uint32, legacy bool) (XKey, error) {
	data := make([]byte, 37)
	if i >= H {
		if !p.Priv {
			return XKey{}, fmt.Errorf("hardened child of a public key")
		}
		k := p.Key[:]
		if legacy {
			for len(k) > 0 && k[0] == 0 {
				k = k[1:]
			}
		}
		// the field stays 33 bytes wide: a stripped key ends up LEFT-aligned
		// (followed by zero bytes) instead of right-aligned as BIP32 says
		copy(data[1:], k)
		binary.BigEndian.PutUint32(data[33:], i)
	} else {
		copy(data, p.Pub[:])
		binary.BigEndian.PutUint32(data[33:], i)
	}
	m := hmac.New(sha512.New, p.Chain[:])
	m.Write(data)
	I := m.Sum(nil)
	var il btcec.ModNScalar
	if overflow := il.SetByteSlice(I[:32]); overflow || il.IsZero() {
		return XKey{}, fmt.Errorf("invalid child")
	}
	var c XKey
	copy(c.Chain[:], I[32:])
	if p.Priv {
		var pk btcec.ModNScalar
		pk.SetByteSlice(p.Key[:])
		il.Add(&pk)
		if il.IsZero() {
			return XKey{}, fmt.Errorf("invalid child")
		}
		c.Key = il.Bytes()
		c.Priv = true
		c.Pub = pubOfScalar(c.Key)
		return c, nil
	}
	// public derivation: point(IL) + Kpar
	var ilJ, parJ, sum btcec.JacobianPoint
	btcec.ScalarBaseMultNonConst(&il, &ilJ)
	par, err := btcec.ParsePubKey(p.Pub[:])
	if err != nil {
		return XKey{}, err
	}
	par.AsJacobian(&parJ)
	btcec.AddNonConst(&ilJ, &parJ, &sum)
	if sum.Z.IsZero() {
		return XKey{}, fmt.Errorf("invalid child")
	}
	sum.ToAffine()
	pub := btcec.NewPublicKey(&sum.X, &sum.Y)
	copy(c.Pub[:], pub.SerializeCompressed())
	return c, nil
}

// Neuter drops the private part.
func (x XKey) Neuter() XKey {
	x.Priv = false
	x.Key = [32]byte{}
	return x
}

// AccountKey derives m/purpose'/coin'/account' the way an address manager
// created from the seed does. It returns the legacy-rule key and the
// standard-rule key for the last step (they are equal unless the coin-type
// key has a leading zero byte).
func AccountKey(seed []byte, purpose, coin, account uint32) (legacy, standard XKey, differ bool, err error) {
	m := Master(seed)
	p, err := m.Child(H+purpose, false) // the root key is always 32 bytes
	if err != nil {
		return
	}
	c, err := p.Child(H+coin, true) // purpose key is in memory: legacy step
	if err != nil {
		return
	}
	legacy, err = c.Child(H+account, true)
	if err != nil {
		return
	}
	standard, err = c.Child(H+account, false)
	if err != nil {
		return
	}
	differ = legacy.Pub != standard.Pub
	return
}

// CoinKey derives m/purpose'/coin'.
func CoinKey(seed []byte, purpose, coin uint32) (XKey, XKey, error) {
	m := Master(seed)
	p, err := m.Child(H+purpose, false)
	if err != nil {
		return XKey{}, XKey{}, err
	}
	c, err := p.Child(H+coin, true)
	return p, c, err
}

// AddrKind mirrors the address formats the manager can issue for HD keys.
type AddrKind int

const (
	P2PKH AddrKind = iota
	NP2WPKH
	P2WPKH
	P2TR
)

// Address encodes the address of a compressed public key in the given format.
func Address(pub [33]byte, kind AddrKind, params *chaincfg.Params) (btcutil.Address, error) {
	h := btcutil.Hash160(pub[:])
	switch kind {
	case P2PKH:
		return btcutil.NewAddressPubKeyHash(h, params)
	case P2WPKH:
		return btcutil.NewAddressWitnessPubKeyHash(h, params)
	case NP2WPKH:
		wa, err := btcutil.NewAddressWitnessPubKeyHash(h, params)
		if err != nil {
			return nil, err
		}
		s, err := txscript.PayToAddrScript(wa)
		if err != nil {
			return nil, err
		}
		return btcutil.NewAddressScriptHash(s, params)
	case P2TR:
		pk, err := btcec.ParsePubKey(pub[:])
		if err != nil {
			return nil, err
		}
		tk := txscript.ComputeTaprootKeyNoScript(pk)
		return btcutil.NewAddressTaproot(schnorr.SerializePubKey(tk), params)
	}
	return nil, fmt.Errorf("unknown kind")
}
