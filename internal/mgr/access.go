package mgr

import (
	"fmt"
	"sort"

	"github.com/btcsuite/btcd/btcec/v2"
	"github.com/btcsuite/btcd/btcutil"
	"github.com/btcsuite/btcwallet/waddrmgr"
	"github.com/btcsuite/btcwallet/walletdb"
)

func lockedErr(err error) bool {
	c := errCode(err)
	return c == "ErrLocked" || c == "ErrWatchingOnly"
}

// Handle is a managed-address object obtained (and used) while the manager was
// unlocked and kept by the caller, the way a wallet keeps the results of
// address iterations around.
type Handle struct {
	MA     waddrmgr.ManagedAddress
	Src    string
	Secret bool // script addresses: the script is secret (P2SH / secret witness scripts)
}

// CollectHandles (C05): while unlocked, obtain managed-address objects through
// every API that hands them out (lookup, per-account iteration, active-address
// iteration), use their private accessors once (which is what fills their
// per-object caches) and retain them for the locked-state battery.
func (w *World) CollectHandles(st Stats) {
	if !w.Unlocked() || w.WatchOnly {
		return
	}
	secret := map[string]bool{}
	for _, e := range w.Addrs {
		if e.Secret {
			secret[e.Str] = true
		}
	}
	use := func(ma waddrmgr.ManagedAddress, src string) {
		h := Handle{MA: ma, Src: src}
		switch a := ma.(type) {
		case waddrmgr.ManagedPubKeyAddress:
			if k, err := a.PrivKey(); err != nil || k == nil {
				return // availability is C03's business
			}
		case waddrmgr.ManagedScriptAddress:
			if !secret[ma.Address().String()] {
				return
			}
			h.Secret = true
			if _, err := a.Script(); err != nil {
				return
			}
		default:
			return
		}
		if len(w.Handles) < 60 {
			w.Handles = append(w.Handles, h)
			st["c05-handles-retained:"+src]++
		}
	}
	w.View(func(ns walletdb.ReadBucket) error {
		addrs := w.SortedAddrs()
		for i := 0; i < 4 && len(addrs) > 0; i++ {
			e := addrs[w.R.Intn(len(addrs))]
			if ma, err := w.M.Address(ns, e.A); err == nil {
				use(ma, "Address")
			}
		}
		for _, sm := range w.M.ActiveScopedKeyManagers() {
			accts := []uint32{waddrmgr.DefaultAccountNum, waddrmgr.ImportedAddrAccount}
			for _, acct := range accts {
				// the iteration holds the scoped manager's lock: keep the
				// objects, use them once it has returned
				var got []waddrmgr.ManagedAddress
				sm.ForEachAccountAddress(ns, acct, func(ma waddrmgr.ManagedAddress) error {
					if len(got) < 4 || w.R.Intn(4) == 0 {
						got = append(got, ma)
					}
					return nil
				})
				for _, ma := range got {
					use(ma, "ForEachAccountAddress")
				}
			}
		}
		return nil
	})
}

// AccessBattery (C05): in a locked or watch-only state every operation that
// would reveal or use private material must fail with a locked /
// watching-only error and return nothing. maxAddrs bounds the number of
// addresses probed per call (0 = all).
func (w *World) AccessBattery(st Stats, maxAddrs int) *Diff {
	if w.Unlocked() {
		return nil
	}
	var d *Diff
	// probes that need a write transaction are run in transactions that are
	// rolled back whatever happens (they must fail before writing anything)
	probe := func(name string, f func(ns walletdb.ReadWriteBucket) (leak string, err error)) {
		if d != nil {
			return
		}
		var leak string
		var err error
		walletdb.Update(w.DB, func(tx walletdb.ReadWriteTx) error {
			leak, err = f(tx.ReadWriteBucket(NS))
			return fmt.Errorf("probe: always roll back")
		})
		st["c05-locked-probes"]++
		if err == nil {
			d = df("c05:locked-access:"+name, "manager is %s but %s succeeded%s", w.stateName(), name, leak)
			return
		}
		if !lockedErr(err) {
			d = df("c05:locked-access-wrong-error:"+name, "manager is %s; %s failed with %q instead of a locked / watching-only error", w.stateName(), name, err)
		}
	}
	addrs := w.SortedAddrs()
	if maxAddrs > 0 && len(addrs) > maxAddrs {
		w.R.Shuffle(len(addrs), func(i, j int) { addrs[i], addrs[j] = addrs[j], addrs[i] })
		addrs = addrs[:maxAddrs]
	}
	w.View(func(ns walletdb.ReadBucket) error {
		for _, e := range addrs {
			if d != nil {
				return nil
			}
			ma, err := w.M.Address(ns, e.A)
			if err != nil {
				continue // existence is C03/C08's business
			}
			switch a := ma.(type) {
			case waddrmgr.ManagedPubKeyAddress:
				k, err := a.PrivKey()
				st["c05-locked-probes"]++
				if err == nil || k != nil {
					d = df("c05:locked-access:PrivKey", "manager is %s but PrivKey() of %s returned a key", w.stateName(), e.Str)
					return nil
				}
				if !lockedErr(err) && e.Priv != nil {
					d = df("c05:locked-access-wrong-error:PrivKey", "PrivKey() of %s: %v", e.Str, err)
					return nil
				}
				wif, err := a.ExportPrivKey()
				st["c05-locked-probes"]++
				if err == nil || wif != nil {
					d = df("c05:locked-access:ExportPrivKey", "manager is %s but ExportPrivKey() of %s returned a key", w.stateName(), e.Str)
					return nil
				}
			case waddrmgr.ManagedScriptAddress:
				if !e.Secret {
					continue
				}
				sc, err := a.Script()
				st["c05-locked-probes"]++
				if err == nil || sc != nil {
					d = df("c05:locked-access:Script", "manager is %s but Script() of secret %s returned the script", w.stateName(), e.Str)
					return nil
				}
			}
		}
		// objects handed out, and used, while the manager was unlocked
		for _, h := range w.Handles {
			if d != nil {
				return nil
			}
			switch a := h.MA.(type) {
			case waddrmgr.ManagedPubKeyAddress:
				k, err := a.PrivKey()
				st["c05-locked-probes"]++
				st["c05-retained-handle-probes"]++
				if err == nil || k != nil {
					d = df("c05:locked-access:retained-handle:PrivKey", "manager is %s but PrivKey() on an object of %s obtained through %s while unlocked returned a key", w.stateName(), h.MA.Address(), h.Src)
					return nil
				}
				wif, err := a.ExportPrivKey()
				if err == nil || wif != nil {
					d = df("c05:locked-access:retained-handle:ExportPrivKey", "manager is %s but ExportPrivKey() on an object of %s obtained through %s while unlocked returned a key", w.stateName(), h.MA.Address(), h.Src)
					return nil
				}
			case waddrmgr.ManagedScriptAddress:
				sc, err := a.Script()
				st["c05-locked-probes"]++
				st["c05-retained-handle-probes"]++
				if err == nil || sc != nil {
					d = df("c05:locked-access:retained-handle:Script", "manager is %s but Script() on an object of secret script address %s obtained through %s while unlocked returned the script", w.stateName(), h.MA.Address(), h.Src)
					return nil
				}
			}
		}
		// derivation by path, cached and uncached
		for _, pr := range w.Paths {
			if d != nil {
				return nil
			}
			sm := w.Scoped(pr.Scope)
			k, err := sm.DeriveFromKeyPathCache(pr.Path)
			st["c05-locked-probes"]++
			if err == nil || k != nil {
				d = df("c05:locked-access:DeriveFromKeyPathCache", "manager is %s but DeriveFromKeyPathCache(%v %+v) returned a private key", w.stateName(), pr.Scope, pr.Path)
				return nil
			}
			ma, err := sm.DeriveFromKeyPath(ns, pr.Path)
			if err == nil {
				if pk, ok := ma.(waddrmgr.ManagedPubKeyAddress); ok {
					k, err := pk.PrivKey()
					st["c05-locked-probes"]++
					if err == nil || k != nil {
						d = df("c05:locked-access:DeriveFromKeyPath.PrivKey", "manager is %s but the address derived by path hands out its private key", w.stateName())
						return nil
					}
				}
			}
		}
		return nil
	})
	if d != nil {
		return d
	}
	// private decryption / encryption
	for _, kt := range []waddrmgr.CryptoKeyType{waddrmgr.CKTPrivate, waddrmgr.CKTScript} {
		out, err := w.M.Decrypt(kt, make([]byte, 64))
		st["c05-locked-probes"]++
		if err == nil || out != nil {
			return df("c05:locked-access:Decrypt", "manager is %s but Decrypt(key type %d) did not refuse", w.stateName(), kt)
		}
		if !lockedErr(err) {
			return df("c05:locked-access-wrong-error:Decrypt", "Decrypt(key type %d) while %s: %v", kt, w.stateName(), err)
		}
		out, err = w.M.Encrypt(kt, []byte("x"))
		st["c05-locked-probes"]++
		if err == nil || out != nil {
			return df("c05:locked-access:Encrypt", "manager is %s but Encrypt(key type %d) did not refuse", w.stateName(), kt)
		}
	}
	s := w.pickScope()
	sm := w.Scoped(s)
	probe("NewAccount", func(ns walletdb.ReadWriteBucket) (string, error) {
		n, err := sm.NewAccount(ns, fmt.Sprintf("probe-%d", w.R.Intn(1e9)))
		return fmt.Sprintf(" (account %d)", n), err
	})
	probe("NewRawAccount", func(ns walletdb.ReadWriteBucket) (string, error) {
		return "", sm.NewRawAccount(ns, 7777)
	})
	probe("ImportPrivateKey", func(ns walletdb.ReadWriteBucket) (string, error) {
		kb := make([]byte, 32)
		w.R.Read(kb)
		kb[0] |= 1
		priv, _ := btcec.PrivKeyFromBytes(kb)
		wif, _ := btcutil.NewWIF(priv, w.Params, true)
		if w.WatchOnly {
			// a watch-only manager stores the public key only: succeeding is fine
			return "", managerLockedSentinel
		}
		_, err := sm.ImportPrivateKey(ns, wif, bs0(w))
		return "", err
	})
	probe("ImportScript", func(ns walletdb.ReadWriteBucket) (string, error) {
		_, err := sm.ImportScript(ns, w.randScript(), bs0(w))
		return "", err
	})
	probe("ImportWitnessScript(secret)", func(ns walletdb.ReadWriteBucket) (string, error) {
		_, err := sm.ImportWitnessScript(ns, w.randScript(), bs0(w), 0, true)
		return "", err
	})
	if !w.WatchOnly {
		probe("NewScopedKeyManager", func(ns walletdb.ReadWriteBucket) (string, error) {
			_, err := w.M.NewScopedKeyManager(ns, waddrmgr.KeyScope{Purpose: 4242, Coin: uint32(w.R.Intn(1000))}, waddrmgr.ScopeAddrSchema{ExternalAddrType: waddrmgr.WitnessPubKey, InternalAddrType: waddrmgr.WitnessPubKey})
			return "", err
		})
	}
	return d
}

var managerLockedSentinel = waddrmgr.ManagerError{ErrorCode: waddrmgr.ErrWatchingOnly}

func (w *World) stateName() string {
	if w.WatchOnly {
		return "watching-only"
	}
	return "locked"
}

func allZero(b []byte) bool {
	for _, x := range b {
		if x != 0 {
			return false
		}
	}
	return true
}

// LockAndCheckWipe captures aliases of every live clear-text secret buffer
// (verif hook), performs lockOp (Lock, or an Unlock with a wrong passphrase),
// and then demands that every captured buffer is all-zero and that nothing
// clear-text is left (C05 "locking clears every in-memory clear-text copy").
func (w *World) LockAndCheckWipe(lockOp func() error, st Stats) (*Diff, error) {
	before := w.M.VerifSecretBuffers()
	nonzero := 0
	for _, b := range before.Bytes {
		if !allZero(b) {
			nonzero++
		}
	}
	err := lockOp()
	if !w.M.IsLocked() {
		return nil, err // did not lock (e.g. already-locked error paths): nothing to check
	}
	st["c05-wipe-checks"]++
	st["c05-buffers-captured"] += len(before.Bytes) + len(before.ExtKeys) + len(before.CacheKeys)
	var names []string
	for n := range before.Bytes {
		names = append(names, n)
	}
	sort.Strings(names)
	for _, n := range names {
		if !allZero(before.Bytes[n]) {
			kind := n
			for i, c := range n {
				if c == ' ' {
					kind = n[:i]
					break
				}
			}
			return df("c05:not-wiped:"+kind, "after locking, the clear-text buffer %q captured before the lock still holds key material", n), err
		}
	}
	for n, k := range before.ExtKeys {
		if k.IsPrivate() && k.String() != "zeroed extended key" {
			return df("c05:not-wiped:acctKeyPriv", "after locking, extended private key %q is not zeroed", n), err
		}
	}
	for n, k := range before.CacheKeys {
		if !k.Key.IsZero() {
			return df("c05:not-wiped:privKeyCache", "after locking, cached derived private key %q is not zeroed", n), err
		}
	}
	if d := w.LiveSecrets(st); d != nil {
		return d, err
	}
	st["c05-nonzero-buffers-seen-wiped"] += nonzero
	return nil, err
}

// LiveSecrets demands that a locked manager holds no clear-text key material
// (verif hook over every tracked buffer).
func (w *World) LiveSecrets(st Stats) *Diff {
	after := w.M.VerifSecretBuffers()
	var names []string
	for n := range after.Bytes {
		names = append(names, n)
	}
	sort.Strings(names)
	for _, n := range names {
		if !allZero(after.Bytes[n]) {
			return df("c05:live-secret-while-locked", "locked manager still holds clear-text %q", n)
		}
	}
	for n := range after.ExtKeys {
		return df("c05:live-secret-while-locked", "locked manager still holds account private key %q", n)
	}
	for n := range after.CacheKeys {
		return df("c05:live-secret-while-locked", "locked manager still caches derived private key %q", n)
	}
	st["c05-other-script-cleartext-observed(O-3)"] += len(after.OtherScripts)
	return nil
}
