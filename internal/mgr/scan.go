package mgr

import (
	"bytes"
	"encoding/binary"
	"fmt"
	"strings"
	"sync"

	"golang.org/x/crypto/nacl/secretbox"

	"verif/internal/vdb"
)

// Scanner searches byte strings (values handed to Put, whole database file
// images) for every secret / public pattern the harness has produced so far
// (C04). Patterns are indexed by their first 8 bytes so one pass over the data
// checks all of them.
type Scanner struct {
	mu       sync.Mutex
	pats     map[[8]byte][]pat
	seen     map[string]bool
	NSecret  int
	NPublic  int
	Images   int
	Puts     int
	Bytes    int64
	PublicOn bool // public material must not appear either (no transaction recorded yet)
	KnownKey int  // ciphertext candidates tried under a key anybody knows
	O2       int  // script rows whose secret script opens under the all-zero key (observation O-2)
}

// knownKeyOpen: a value "encrypted" under a key that anybody knows (the
// all-zero key a wiped or never-initialised key buffer amounts to) is not
// encrypted.  Candidates: the whole value and every length-prefixed field of it
// (waddrmgr rows serialise their fields as uint32-LE length || bytes), read as
// nonce(24) || secretbox.
//
// One class is recorded as an observation instead of a violation: the script
// field of script-address rows (row types 2, 3, 4 in a scope's "addr" bucket).
// The unchanged tree never decrypts the script crypto key on Unlock, so every
// imported secret script is sealed under the all-zero key (DESIGN O-2).  The
// property statement speaks of secrets "in raw or serialized text form", which
// this is not; everything sealed under the PRIVATE crypto key (address keys,
// imported keys, account / coin-type / master keys) is judged.
func (s *Scanner) knownKeyOpen(v []byte, where string, scriptRow bool) *Diff {
	var zero [32]byte
	try := func(ct []byte, what string) *Diff {
		if len(ct) < 24+secretbox.Overhead+1 {
			return nil
		}
		s.mu.Lock()
		s.KnownKey++
		s.mu.Unlock()
		var nonce [24]byte
		copy(nonce[:], ct[:24])
		if pt, ok := secretbox.Open(nil, ct[24:], &nonce, &zero); ok {
			if scriptRow {
				s.mu.Lock()
				s.O2++
				s.mu.Unlock()
				return nil
			}
			return df("c04:ciphertext-under-all-zero-key", "%s of the %s opens under the ALL-ZERO key without any passphrase (%d plaintext bytes): it is not encrypted", what, where, len(pt))
		}
		return nil
	}
	if d := try(v, "the whole value"); d != nil {
		return d
	}
	for p := 0; p+4 <= len(v); p++ {
		l := int(binary.LittleEndian.Uint32(v[p:]))
		if l >= 24+secretbox.Overhead+1 && l <= len(v)-p-4 {
			if d := try(v[p+4:p+4+l], fmt.Sprintf("the %d-byte field at offset %d", l, p+4)); d != nil {
				return d
			}
		}
	}
	return nil
}

type pat struct {
	name   string
	b      []byte
	secret bool
}

func NewScanner() *Scanner {
	return &Scanner{pats: map[[8]byte][]pat{}, seen: map[string]bool{}, PublicOn: true}
}

func (s *Scanner) Add(secret bool, name string, b []byte) {
	if len(b) < 8 {
		return
	}
	s.mu.Lock()
	defer s.mu.Unlock()
	k := fmt.Sprintf("%v/%x", secret, b)
	if s.seen[k] {
		return
	}
	s.seen[k] = true
	var h [8]byte
	copy(h[:], b[:8])
	s.pats[h] = append(s.pats[h], pat{name, append([]byte(nil), b...), secret})
	if secret {
		s.NSecret++
	} else {
		s.NPublic++
	}
}

// Scan returns the first pattern found in data.
func (s *Scanner) Scan(data []byte, where string) *Diff {
	s.mu.Lock()
	defer s.mu.Unlock()
	s.Bytes += int64(len(data))
	var h [8]byte
	for i := 0; i+8 <= len(data); i++ {
		copy(h[:], data[i:i+8])
		ps, ok := s.pats[h]
		if !ok {
			continue
		}
		for _, p := range ps {
			if !p.secret && !s.PublicOn {
				continue
			}
			if i+len(p.b) <= len(data) && bytes.Equal(data[i:i+len(p.b)], p.b) {
				kind := "public-material-in-clear"
				if p.secret {
					kind = "secret-in-clear"
				}
				cls := p.name
				for j, c := range cls {
					if c == ' ' {
						cls = cls[:j]
						break
					}
				}
				return df("c04:"+kind+":"+cls, "%s contains %q (%d bytes) in the clear at offset %d", where, p.name, len(p.b), i)
			}
		}
	}
	return nil
}

// Attach makes the world feed the scanner with everything it produces and
// scans every value/key at write time.
func (s *Scanner) Attach(w *World, onHit func(*Diff)) {
	w.OnSecret = func(n string, b []byte) { s.Add(true, n, b) }
	w.OnPublic = func(n string, b []byte) { s.Add(false, n, b) }
}

// Trace returns a vdb trace function scanning every write.
func (s *Scanner) Trace(onHit func(*Diff)) func(vdb.WriteEvent) {
	return func(e vdb.WriteEvent) {
		s.mu.Lock()
		s.Puts++
		s.mu.Unlock()
		if d := s.Scan(e.Value, fmt.Sprintf("value written by %s into bucket %q", e.Op, e.Path)); d != nil {
			onHit(d)
		}
		if d := s.Scan(e.Key, fmt.Sprintf("key written by %s into bucket %q", e.Op, e.Path)); d != nil {
			onHit(d)
		}
		scriptRow := strings.HasSuffix(e.Path, "/addr") && len(e.Value) > 18 && e.Value[0] >= 2 && e.Value[0] <= 4
		if d := s.knownKeyOpen(e.Value, fmt.Sprintf("value written by %s into bucket %q", e.Op, e.Path), scriptRow); d != nil {
			onHit(d)
		}
	}
}

// ScanImage copies the database file (raw pages, including freed ones) and
// scans it.
func (s *Scanner) ScanImage(w *World) *Diff {
	var buf bytes.Buffer
	if err := w.DB.Copy(&buf); err != nil {
		return df("harness:copy", "%v", err)
	}
	s.mu.Lock()
	s.Images++
	s.mu.Unlock()
	return s.Scan(buf.Bytes(), fmt.Sprintf("database file image (%d bytes)", buf.Len()))
}
