package mgr

import (
	"bytes"
	"fmt"
	"sync"

	"verif/internal/vdb"
)

// Scanner searches byte strings (values handed to Put, whole database file
// images) for every secret / public pattern the harness has produced so far
// (C04). Patterns are indexed by their first 8 bytes so one pass over the data
// checks all of them.
type Scanner struct {
	mu       sync.Mutex
	pats     map[[8]byte][]pat
	seen     map[string]bool
	NSecret  int
	NPublic  int
	Images   int
	Puts     int
	Bytes    int64
	PublicOn bool // public material must not appear either (no transaction recorded yet)
}

type pat struct {
	name   string
	b      []byte
	secret bool
}

func NewScanner() *Scanner {
	return &Scanner{pats: map[[8]byte][]pat{}, seen: map[string]bool{}, PublicOn: true}
}

func (s *Scanner) Add(secret bool, name string, b []byte) {
	if len(b) < 8 {
		return
	}
	s.mu.Lock()
	defer s.mu.Unlock()
	k := fmt.Sprintf("%v/%x", secret, b)
	if s.seen[k] {
		return
	}
	s.seen[k] = true
	var h [8]byte
	copy(h[:], b[:8])
	s.pats[h] = append(s.pats[h], pat{name, append([]byte(nil), b...), secret})
	if secret {
		s.NSecret++
	} else {
		s.NPublic++
	}
}

// Scan returns the first pattern found in data.
func (s *Scanner) Scan(data []byte, where string) *Diff {
	s.mu.Lock()
	defer s.mu.Unlock()
	s.Bytes += int64(len(data))
	var h [8]byte
	for i := 0; i+8 <= len(data); i++ {
		copy(h[:], data[i:i+8])
		ps, ok := s.pats[h]
		if !ok {
			continue
		}
		for _, p := range ps {
			if !p.secret && !s.PublicOn {
				continue
			}
			if i+len(p.b) <= len(data) && bytes.Equal(data[i:i+len(p.b)], p.b) {
				kind := "public-material-in-clear"
				if p.secret {
					kind = "secret-in-clear"
				}
				cls := p.name
				for j, c := range cls {
					if c == ' ' {
						cls = cls[:j]
						break
					}
				}
				return df("c04:"+kind+":"+cls, "%s contains %q (%d bytes) in the clear at offset %d", where, p.name, len(p.b), i)
			}
		}
	}
	return nil
}

// Attach makes the world feed the scanner with everything it produces and
// scans every value/key at write time.
func (s *Scanner) Attach(w *World, onHit func(*Diff)) {
	w.OnSecret = func(n string, b []byte) { s.Add(true, n, b) }
	w.OnPublic = func(n string, b []byte) { s.Add(false, n, b) }
}

// Trace returns a vdb trace function scanning every write.
func (s *Scanner) Trace(onHit func(*Diff)) func(vdb.WriteEvent) {
	return func(e vdb.WriteEvent) {
		s.mu.Lock()
		s.Puts++
		s.mu.Unlock()
		if d := s.Scan(e.Value, fmt.Sprintf("value written by %s into bucket %q", e.Op, e.Path)); d != nil {
			onHit(d)
		}
		if d := s.Scan(e.Key, fmt.Sprintf("key written by %s into bucket %q", e.Op, e.Path)); d != nil {
			onHit(d)
		}
	}
}

// ScanImage copies the database file (raw pages, including freed ones) and
// scans it.
func (s *Scanner) ScanImage(w *World) *Diff {
	var buf bytes.Buffer
	if err := w.DB.Copy(&buf); err != nil {
		return df("harness:copy", "%v", err)
	}
	s.mu.Lock()
	s.Images++
	s.mu.Unlock()
	return s.Scan(buf.Bytes(), fmt.Sprintf("database file image (%d bytes)", buf.Len()))
}
