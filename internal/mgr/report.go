package mgr

import (
	"fmt"
	"strings"

	"verif/internal/evid"
)

// Record folds one manager history into the evidence run.
func Record(r *evid.Run, res *Result, phase string, cs int64, nontrivial bool) {
	for k, v := range res.Stats {
		r.Hit(k, v)
	}
	r.Hit("ops", res.Steps)
	var kinds []string
	for _, l := range res.Log {
		if i := strings.Index(l, " "); i > 0 {
			kinds = append(kinds, l[:i])
		}
	}
	r.Case(fmt.Sprint(cs, kinds), nontrivial)
	if res.Diff != nil {
		r.Violation(res.Diff.Key, res.Diff.What, phase, cs, map[string]any{"operations": res.Log, "disagreement": res.Diff.What})
		return
	}
	if r.WantSample() && len(res.Log) > 8 && len(res.Log) < 40 {
		r.Sample(map[string]any{"case_seed": cs, "operations": res.Log})
	}
}
