package mgr

import (
	"encoding/binary"
	"fmt"
	"math/rand"
	"runtime/debug"
	"strings"
	"sync/atomic"
	"time"

	"github.com/btcsuite/btcwallet/waddrmgr"
	"github.com/btcsuite/btcwallet/walletdb"

	"golang.org/x/crypto/nacl/secretbox"

	"verif/internal/evid"
	"verif/internal/vdb"
)

// Config selects the monitors judging a manager history.
type Config struct {
	Weights    Weights
	MinSteps   int
	MaxSteps   int
	Seed       []byte // wallet seed (nil = random)
	C03        bool   // oracle check of every returned address, periodic full sweeps, account keys
	C05        bool   // access battery, wipe check, passphrase battery
	C08        bool   // restart differential after every operation
	Rollbacks  bool   // C08: rolled-back transactions (issuing ops) of three kinds
	Faults     bool   // C10: single write fault at every position of mutating operations
	SweepEvery int    // C03 full sweep every n ops (0 = only at the end and after restart/unlock)
	C04        bool   // byte-pattern scan of every write and of the file image after every operation; watch-only clause
	Hook       func(*World)
}

// Result of one manager history.
type Result struct {
	Diff  *Diff
	Log   []string
	Stats Stats
	Steps int
}

type run struct {
	cfg Config
	w   *World
	st  Stats
	res *Result
	sc  *Scanner
}

func (x *run) fail(d *Diff) bool {
	if d != nil && x.res.Diff == nil {
		x.res.Diff = d
	}
	return x.res.Diff != nil
}

// exec runs op (committed) and applies bookkeeping. Returns the op error.
func (x *run) exec(op *Op) error {
	w := x.w
	if op.NoTx != nil {
		return op.NoTx()
	}
	err := w.Update(op.Run)
	if err == nil && op.Post != nil {
		op.Post()
	}
	return err
}

// judgeOutcome applies the outcome the oracle demands for op.
func (x *run) judgeOutcome(op *Op, err error) *Diff {
	if op.WantAny {
		return nil
	}
	if op.WantFail {
		if err == nil {
			return df("outcome:should-have-failed:"+op.Kind, "%s succeeded", op.Name)
		}
		return nil
	}
	got := errCode(err)
	if op.WantErr != "" {
		if err == nil {
			key := "outcome:should-have-failed:" + op.Kind
			if op.WantErr == "ErrLocked" || op.WantErr == "ErrWatchingOnly" {
				key = "c05:locked-access:" + op.Kind
			}
			if op.Kind == "unlock-wrong" {
				key = "c05:wrong-passphrase-accepted"
			}
			return df(key, "%s succeeded; the manager state demands %s", op.Name, op.WantErr)
		}
		if got != op.WantErr {
			// error class only asserted where the API documents it
			if (op.WantErr == "ErrLocked" || op.WantErr == "ErrWatchingOnly") && (got == "ErrLocked" || got == "ErrWatchingOnly") {
				return nil
			}
			return df("outcome:wrong-error:"+op.Kind, "%s failed with %v (%s), expected %s", op.Name, err, got, op.WantErr)
		}
		return nil
	}
	if err != nil {
		key := "outcome:unexpected-error:" + op.Kind
		if op.Kind == "unlock" {
			key = "c05:right-passphrase-rejected"
			if strings.Contains(fmt.Sprint(err), "private key") {
				key += ":account-key"
			}
		}
		return df(key, "%s failed: %v", op.Name, err)
	}
	return nil
}

// RunHistory generates and executes one manager history.
func RunHistory(cfg Config, seed int64, dir string) (res *Result) {
	r := rand.New(rand.NewSource(seed))
	res = &Result{Stats: Stats{}}
	var sc *Scanner
	var scanHit *Diff
	hook := cfg.Hook
	if cfg.C04 {
		sc = NewScanner()
		hook = func(w *World) {
			sc.Attach(w, nil)
			if cfg.Hook != nil {
				cfg.Hook(w)
			}
		}
	}
	w, err := NewWorld(r, dir, cfg.Seed, hook)
	if err != nil {
		res.Diff = df("harness:create", "%v", err)
		return res
	}
	defer func() {
		if w.Abandoned {
			return // a goroutine of this history is parked inside the manager, holding or awaiting its locks
		}
		w.Close()
	}()
	if (cfg.Faults || cfg.C08) && r.Intn(4) == 0 {
		if err := w.PreSync(int32(9998 + r.Intn(6))); err != nil {
			res.Diff = df("harness:presync", "%v", err)
			return res
		}
		res.Stats["histories-starting-near-or-above-height-10000"]++
	}
	x := &run{cfg: cfg, w: w, st: res.Stats, res: res, sc: sc}
	if sc != nil {
		w.DB.Trace = sc.Trace(func(d *Diff) {
			if scanHit == nil {
				scanHit = d
			}
		})
		defer func() {
			res.Stats["c04-secret-patterns"] += sc.NSecret
			res.Stats["c04-public-patterns"] += sc.NPublic
			res.Stats["c04-images-scanned"] += sc.Images
			res.Stats["c04-writes-scanned"] += sc.Puts
			res.Stats["c04-known-key-open-attempts"] += sc.KnownKey
			res.Stats["o2-secret-scripts-sealed-under-the-all-zero-key"] += sc.O2
			res.Stats["c04-bytes-scanned-KiB"] += int(sc.Bytes >> 10)
		}()
		if x.fail(sc.ScanImage(w)) {
			return res
		}
	}
	defer func() {
		res.Log = w.Log
		if p := recover(); p != nil {
			st := string(debug.Stack())
			var fr []string
			for _, l := range strings.Split(st, "\n") {
				if strings.Contains(l, "/repo/") || strings.Contains(l, "/verif/") {
					fr = append(fr, strings.TrimSpace(l))
				}
			}
			if len(fr) > 9 {
				fr = fr[:9]
			}
			res.Diff = &Diff{evid.PanicKey(st), fmt.Sprintf("panic: %v at %s", p, strings.Join(fr, " <- "))}
		}
	}()
	if cfg.C03 {
		if x.fail(w.ResolveAccounts(x.st)) {
			return res
		}
	}
	nsteps := cfg.MinSteps + r.Intn(cfg.MaxSteps-cfg.MinSteps+1)
	for step := 0; step < nsteps && res.Diff == nil; step++ {
		op := w.Gen(cfg.Weights)
		x.step(op)
		res.Steps++
		if sc != nil && res.Diff == nil {
			if !x.fail(scanHit) {
				x.fail(sc.ScanImage(w))
			}
			if op.Kind == "convert" && res.Diff == nil && w.WatchOnly {
				x.afterConvert()
			}
		}
	}
	if res.Diff == nil && cfg.C03 {
		// final: unlock, sweep everything; restart, unlock, sweep again
		x.finalSweeps()
	}
	return res
}

func (x *run) finalSweeps() {
	w := x.w
	for round := 0; round < 2 && x.res.Diff == nil; round++ {
		if !w.WatchOnly && w.M.IsLocked() {
			if err := w.View(func(ns walletdb.ReadBucket) error { return w.M.Unlock(ns, w.PrivPass) }); err != nil {
				x.fail(df("c05:right-passphrase-rejected", "final unlock: %v", err))
				return
			}
			w.Logf("unlock(right) [final sweep]")
		}
		if x.fail(w.ResolveAccounts(x.st)) || x.fail(w.SweepAll(x.st)) {
			return
		}
		x.st["c03-full-sweeps"]++
		if round == 0 {
			w.Logf("restart [final sweep]")
			if err := w.Restart(); err != nil {
				x.fail(df("harness:restart", "%v", err))
				return
			}
		}
	}
}

// operations after which the C05 workload sometimes locks before the commit
var lockInTx = map[string]bool{"next": true, "extend": true, "importpriv": true, "importscript": true, "importwscript": true, "importtscript": true, "importpub": true, "importxpub": true, "rename": true, "newaccount": true, "newscope": true, "markused": true}

func (x *run) step(op *Op) {
	w, cfg := x.w, x.cfg
	if cfg.C04 && w.PrivCryptoKey == nil && w.Unlocked() && !w.WatchOnly {
		if b := w.M.VerifSecretBuffers().Bytes["cryptoKeyPriv"]; len(b) == 32 && !allZero(b) {
			w.PrivCryptoKey = append([]byte(nil), b...)
		}
	}
	x.st["op:"+op.Kind]++
	if strings.Contains(op.Name, "preceded in the same transaction") {
		x.st["op:next-two-requests-in-one-transaction"]++
	}
	wasUnlocked := w.Unlocked()

	// C08: sometimes run an issuing op in a transaction that is rolled back first
	if cfg.Rollbacks && op.Issuing && w.R.Intn(3) == 0 {
		if x.rolledBack(op) {
			return
		}
	}
	// C10: single write fault at every position, each attempt rolled back
	if cfg.Faults && op.Run != nil && op.Mutates {
		// the history is single-threaded: if the sweep (a failed write, the queries
		// after it, the retry) ends up parked on one of the manager's own locks,
		// a failed write has left a lock behind
		var swept bool
		stack, blocked := evid.Blocked([]string{"btcwallet/waddrmgr."}, func() { swept = x.faultSweep(op) })
		if blocked {
			w.Abandoned = true
			x.fail(&Diff{"c10:manager-blocked-after-failed-write:" + op.Kind, fmt.Sprintf("%s: after an injected write failure the manager no longer answers: the (only) goroutine using it is parked on a lock inside waddrmgr and its stack does not change:\n%s", op.Name, stack)})
			return
		}
		if swept {
			return
		}
	}

	// C04: a conversion attempt that fails half-way (one write fault, rolled
	// back) precedes the real one: the retry must still convert
	if cfg.C04 && op.Kind == "convert" && w.R.Intn(3) != 0 {
		w.DB.FailAt = 1 + w.R.Intn(12)
		ferr := w.Update(op.Run)
		fired := w.DB.Fired
		w.DB.FailAt = 0
		if fired {
			x.st["c04-conversions-retried-after-a-failed-attempt"]++
			w.Logf("%s FAULT (%s %s) -> %s", op.Name, w.DB.LastFailed.Op, w.DB.LastFailed.Path, okOr(ferr))
		} else if ferr == nil {
			// no write failed: this WAS the conversion
			op.Post()
			w.Logf("%s -> ok", op.Name)
			return
		}
	}

	var err error
	var wipe *Diff
	switch {
	case (cfg.C05 || cfg.C04) && op.Kind == "convert" && wasUnlocked:
		// converting an UNLOCKED manager must lock it and wipe what it held
		wipe, err = w.LockAndCheckWipe(func() error { return x.exec(op) }, x.st)
		if err == nil && !w.M.IsLocked() {
			x.fail(df("c05:not-locked-after-conversion", "after ConvertToWatchingOnly of an unlocked manager IsLocked() is false"))
			return
		}
		x.st["c05-conversions-of-an-unlocked-manager-wipe-checked"]++
	case cfg.C05 && wasUnlocked && op.Run != nil && op.Mutates && lockInTx[op.Kind] && w.R.Intn(5) == 0:
		// the manager is locked INSIDE the operation's database transaction, after the
		// operation returned and before the commit (the wallet's lock timer is not
		// synchronised with database transactions): whatever the operation registers at
		// commit time must not bring clear text into the locked manager
		var lockErr error
		err = w.Update(func(ns walletdb.ReadWriteBucket) error {
			e := op.Run(ns)
			if e == nil {
				lockErr = w.M.Lock()
			}
			return e
		})
		if err == nil && op.Post != nil {
			op.Post()
		}
		op.Name += " (manager locked inside the same transaction, before the commit)"
		if err == nil && lockErr == nil && w.M.IsLocked() {
			x.st["c05-locks-before-the-commit-of-an-operation"]++
			wipe = w.LiveSecrets(x.st)
		}
	case cfg.C05 && (op.Kind == "lock" || op.Kind == "unlock-wrong") && wasUnlocked:
		// capture clear-text buffers, lock, demand they are wiped
		wipe, err = w.LockAndCheckWipe(func() error { return x.exec(op) }, x.st)
	case cfg.C04 && wasUnlocked && !w.WatchOnly && (op.Kind == "newscope" || op.Kind == "changepass") && w.R.Intn(2) == 0:
		// Operations of the root manager run under the manager's own mutex, the one
		// Lock takes: a Lock request arriving in the middle of one (the wallet's lock
		// timer) must wait for it.  The request is made just before the operation's
		// k-th write; it is given a moment to be served, then the write proceeds.
		// Whatever the file holds afterwards is judged by the image scan as usual
		// (nothing the operation wrote may open under a wiped, all-zero key).
		prev := w.DB.Trace
		k, n := 1+w.R.Intn(3), 0
		var lockDone chan error
		w.DB.Trace = func(ev vdb.WriteEvent) {
			if prev != nil {
				prev(ev)
			}
			n++
			if n != k {
				return
			}
			lockDone = make(chan error, 2)
			go func(c chan error) { c <- w.M.Lock() }(lockDone)
			select {
			case e := <-lockDone:
				lockDone <- e
				x.st["c04-lock-requests-served-during-a-root-manager-operation"]++
			case <-time.After(25 * time.Millisecond):
			}
		}
		err = x.exec(op)
		w.DB.Trace = prev
		if lockDone != nil {
			x.st["c04-lock-requests-during-a-root-manager-operation"]++
			op.Name += fmt.Sprintf(" (Lock requested before its write #%d)", k)
			select {
			case <-lockDone:
			case <-time.After(60 * time.Second):
				w.Abandoned = true
				x.fail(df("harness:lock-request-never-served", "%s: the concurrent Lock request did not return within 60 s", op.Name))
				return
			}
		}
	case cfg.C04 && op.Kind == "unlock" && !wasUnlocked && !w.WatchOnly && w.R.Intn(2) == 0:
		// While the manager is being unlocked, another caller keeps trying to import a
		// private key (each attempt in its own transaction).  The attempts are refused
		// until the manager IS unlocked; the one that gets through afterwards is sealed
		// under the real key.  What the file holds is judged by the image scan as usual
		// (nothing may open under the wiped, all-zero key): the locked flag must never
		// say "unlocked" before the keys are there.
		imp := w.opImportPriv()
		var stop, tries int32
		var impOK bool

		done := make(chan struct{})
		if imp != nil {
			go func() {
				defer close(done)
				for {
					last := atomic.LoadInt32(&stop) == 1
					atomic.AddInt32(&tries, 1)

					e := w.Update(imp.Run)
					if e == nil {
						impOK = true
						if !last {
							x.st["c04-imports-accepted-before-the-unlock-returned"]++
						}
						return
					}

					if last {
						return
					}
				}
			}()
			// the importer is already at it when the unlock starts
			for i := 0; i < 2000 && atomic.LoadInt32(&tries) < 2; i++ {
				time.Sleep(50 * time.Microsecond)
			}
		} else {
			close(done)
		}
		// (in a read transaction, as the wallet does it: the importer's write
		// transactions are not serialised behind it)
		err = w.View(func(ns walletdb.ReadBucket) error { return w.M.Unlock(ns, append([]byte(nil), w.PrivPass...)) })
		atomic.StoreInt32(&stop, 1)
		<-done
		if impOK && imp.Post != nil {
			imp.Post()
		}
		x.st["c04-import-attempts-racing-an-unlock"] += int(atomic.LoadInt32(&tries))
		x.st["c04-unlocks-raced-by-an-importer"]++
		op.Name += fmt.Sprintf(" (raced by %d private-key import attempts; one got through: %v)", tries, impOK)
	default:
		err = x.exec(op)
	}
	w.Logf("%s -> %s", op.Name, okOr(err))
	if x.fail(wipe) || x.fail(x.judgeOutcome(op, err)) {
		return
	}
	if op.Kind == "unlock-wrong" && !w.WatchOnly && !w.M.IsLocked() {
		x.fail(df("c05:not-locked-after-wrong-passphrase", "manager is unlocked after Unlock with a wrong passphrase"))
		return
	}
	if err == nil {
		if x.fail(w.CheckOp(op, x.st)) {
			return
		}
	}
	if cfg.C05 {
		x.c05After(op, err, wasUnlocked)
		if x.res.Diff != nil {
			return
		}
	}
	if cfg.C03 && err == nil {
		// objects derived by path while locked are kept; the first thing asked of them
		// after the next unlock is their private key
		if op.Kind == "derivepath" && !wasUnlocked && !w.WatchOnly && len(op.Returned) == 1 && op.Expected[0].Priv != nil && len(w.DerivedLocked) < 40 {
			w.DerivedLocked = append(w.DerivedLocked, Retained{op.Returned[0], op.Expected[0]})
		}
		if op.Kind == "unlock" && w.Unlocked() {
			for _, rt := range w.DerivedLocked {
				if x.fail(w.CheckManaged(rt.MA, rt.E, "object derived by path while locked, after unlock", x.st)) {
					return
				}
				x.st["c03-objects-derived-while-locked-asked-for-their-key-after-unlock"]++
			}
			w.DerivedLocked = nil
		}
		switch {
		case op.Kind == "newaccount" || op.Kind == "importxpub" || op.Kind == "newscope":
			x.fail(w.ResolveAccounts(x.st))
		case op.Kind == "unlock" || op.Kind == "restart" || (cfg.SweepEvery > 0 && x.res.Steps%cfg.SweepEvery == 0):
			if w.Unlocked() || w.R.Intn(3) == 0 {
				if !x.fail(w.ResolveAccounts(x.st)) {
					x.fail(w.SweepAll(x.st))
					x.st["c03-full-sweeps"]++
				}
			}
		}
	}
	if cfg.C08 && x.res.Diff == nil {
		x.fail(w.RestartDiff(x.st))
	}
}

func okOr(err error) string {
	if err == nil {
		return "ok"
	}
	return err.Error()
}

// c05After: access battery in locked states, passphrase battery after changes.
func (x *run) c05After(op *Op, err error, wasUnlocked bool) {
	w := x.w
	if op.Kind == "restart" {
		w.Handles = nil // objects of the closed manager
	}
	if w.Unlocked() && (op.Kind == "unlock" || w.R.Intn(4) == 0) {
		w.CollectHandles(x.st)
	}
	if !w.Unlocked() {
		max := 5
		if op.Kind == "lock" || op.Kind == "restart" || op.Kind == "unlock-wrong" {
			max = 0
		}
		if x.fail(w.AccessBattery(x.st, max)) {
			return
		}
	}
	if op.Kind == "changepass" && err == nil && strings.Contains(op.Name, "private=true") && !w.WatchOnly {
		old := w.OldPriv[len(w.OldPriv)-2]
		// the new passphrase works immediately, whatever the lock state
		if e := w.View(func(ns walletdb.ReadBucket) error { return w.M.Unlock(ns, append([]byte(nil), w.PrivPass...)) }); e != nil {
			key := "c05:new-passphrase-rejected"
			if wasUnlocked {
				key += ":while-unlocked"
			}
			x.fail(df(key, "after a private passphrase change the new passphrase does not unlock (was unlocked: %v): %v", wasUnlocked, e))
			return
		}
		w.Logf("  [battery] unlock(new) ok")
		// the old one fails immediately and leaves the manager locked
		var wipe *Diff
		var e error
		wipe, e = w.LockAndCheckWipe(func() error {
			return w.View(func(ns walletdb.ReadBucket) error { return w.M.Unlock(ns, append([]byte(nil), old...)) })
		}, x.st)
		if e == nil {
			x.fail(df("c05:old-passphrase-accepted", "after a private passphrase change the OLD passphrase still unlocks"))
			return
		}
		if !w.M.IsLocked() {
			x.fail(df("c05:not-locked-after-wrong-passphrase", "manager unlocked after Unlock(old passphrase)"))
			return
		}
		if x.fail(wipe) {
			return
		}
		w.Logf("  [battery] unlock(old) refused, locked")
		x.st["c05-passphrase-change-batteries"]++
		if wasUnlocked {
			if e := w.View(func(ns walletdb.ReadBucket) error { return w.M.Unlock(ns, append([]byte(nil), w.PrivPass...)) }); e != nil {
				x.fail(df("c05:right-passphrase-rejected", "re-unlock after battery: %v", e))
				return
			}
		}
	}
	if op.Kind == "changepass" && err == nil && strings.Contains(op.Name, "private=false") {
		// public passphrase: old one must fail to open, new one must open (restart view)
		x.fail(w.pubPassCheck(x.st))
	}
	if op.Kind == "restart" && err == nil && !w.WatchOnly && w.R.Intn(2) == 0 {
		// after restart: every previous private passphrase fails, the current one works
		for i, old := range w.OldPriv {
			if string(old) == string(w.PrivPass) {
				continue
			}
			if i < len(w.OldPriv)-3 {
				continue
			}
			e := w.View(func(ns walletdb.ReadBucket) error { return w.M.Unlock(ns, append([]byte(nil), old...)) })
			x.st["c05-old-passphrases-tried-after-restart"]++
			if e == nil {
				x.fail(df("c05:old-passphrase-accepted:after-restart", "a previous private passphrase unlocks after restart"))
				return
			}
		}
		if e := w.View(func(ns walletdb.ReadBucket) error { return w.M.Unlock(ns, append([]byte(nil), w.PrivPass...)) }); e != nil {
			x.fail(df("c05:right-passphrase-rejected:after-restart", "current private passphrase rejected after restart: %v", e))
			return
		}
		w.Logf("  [battery] after restart: old passphrases refused, current accepted")
	}
}

func (w *World) pubPassCheck(st Stats) *Diff {
	fdb, fm, cleanup, err := w.Fresh()
	if err != nil {
		return df("c05:new-public-passphrase-rejected", "cannot open a copy with the new public passphrase: %v", err)
	}
	_ = fm
	defer cleanup()
	old := w.OldPub[len(w.OldPub)-2]
	var m2 *waddrmgr.Manager
	err = walletdb.View(fdb, func(tx walletdb.ReadTx) error {
		var e error
		m2, e = waddrmgr.Open(tx.ReadBucket(NS), old, w.Params)
		return e
	})
	st["c05-public-passphrase-checks"]++
	if err == nil {
		m2.Close()
		return df("c05:old-public-passphrase-accepted", "the old public passphrase still opens the manager")
	}
	return nil
}

// rolledBack runs an issuing op inside a transaction that does not commit
// (three kinds), demands that nothing observable changed, and that the next
// committed request issues the address a restarted wallet would issue.
// Returns true if a violation was recorded.
func (x *run) rolledBack(op *Op) bool {
	w := x.w
	before := w.Battery(w.DB, w.M)
	kind := w.R.Intn(3)
	var err error
	switch kind {
	case 0: // callback returns an error after issuing (dry-run shape)
		err = walletdb.Update(w.DB, func(tx walletdb.ReadWriteTx) error {
			if e := op.Run(tx.ReadWriteBucket(NS)); e != nil {
				return e
			}
			return walletdb.ErrDryRunRollBack
		})
	case 1: // injected write fault
		w.DB.FailAt = 1 + w.R.Intn(6)
		err = w.Update(op.Run)
		if !w.DB.Fired {
			// the op had fewer writes: it committed for real
			w.DB.FailAt = 0
			if err == nil && op.Post != nil {
				op.Post()
			}
			w.Logf("%s -> %s (fault position beyond its writes: committed)", op.Name, okOr(err))
			return x.fail(w.CheckOp(op, x.st)) || x.fail(w.RestartDiff(x.st))
		}
		w.DB.FailAt = 0
	case 2: // commit fails
		w.DB.FailCommit = true
		err = w.Update(op.Run)
		w.DB.FailCommit = false
	}
	w.Logf("%s ROLLED BACK (kind %d) -> %s", op.Name, kind, okOr(err))
	x.st[fmt.Sprintf("c08-rolled-back-txs:kind%d", kind)]++
	if err == nil {
		return x.fail(df("c08:rolled-back-tx-reported-success", "transaction of kind %d reported success", kind))
	}
	after := w.Battery(w.DB, w.M)
	if d := DiffBattery(before, after, "before", "after "); d != nil {
		return x.fail(&Diff{"c08:rolled-back-tx-changed-state:" + d.Key, fmt.Sprintf("after %s in a transaction that was rolled back (kind %d) the running manager answers differently:\n%s", op.Name, kind, d.What)})
	}
	if x.fail(w.RestartDiff(x.st)) {
		return true
	}
	x.st["c08-rollback-probes"]++
	return false
}

// faultSweep (C10): for k = 1.. fail the k-th write of op, demand an error,
// an unchanged query surface (memory and database) and, finally, a fault-free
// retry whose result equals a fault-free twin's.
func (x *run) faultSweep(op *Op) bool {
	w := x.w
	// twin: the same operation without any fault, on a fresh manager over a
	// copy; kept open so that its battery can be taken with the same
	// bookkeeping as the running manager's after the retry
	var twinErr error
	var twinDB *vdb.DB
	var twinM *waddrmgr.Manager
	twinCleanup := func() {}
	if fdb, fm, cleanup, err := w.Fresh(); err == nil {
		oldDB, oldM := w.DB, w.M
		twinDB, twinM, twinCleanup = vdb.New(fdb), fm, cleanup
		w.DB, w.M = twinDB, twinM
		twinErr = w.Update(op.Run)
		w.DB, w.M = oldDB, oldM
	}
	defer twinCleanup()
	for k := 1; k < 400; k++ {
		before := w.Battery(w.DB, w.M)
		w.DB.FailAt = k
		err := w.Update(op.Run)
		fired := w.DB.Fired
		lf := w.DB.LastFailed
		w.DB.FailAt = 0
		if !fired {
			// this was the fault-free (re)try
			if err == nil && op.Post != nil {
				op.Post()
			}
			w.Logf("%s (after %d injected faults) -> %s", op.Name, k-1, okOr(err))
			x.st["c10-ops-swept"]++
			if (err == nil) != (twinErr == nil) {
				return x.fail(df("c10:retry-differs-from-fault-free-run:"+op.Kind, "%s: after faults the retry returned %v, a fault-free twin returned %v", op.Name, err, twinErr))
			}
			if x.fail(x.judgeOutcome(op, err)) {
				return true
			}
			if err == nil {
				if x.fail(w.CheckOp(op, x.st)) {
					return true
				}
				if twinM != nil {
					now := w.Battery(w.DB, w.M)
					twinAfter := w.Battery(twinDB, twinM)
					if d := DiffBattery(now, twinAfter, "after faults+retry", "fault-free twin   "); d != nil {
						return x.fail(&Diff{"c10:retry-differs-from-fault-free-run:" + op.Kind + ":" + d.Key, fmt.Sprintf("%s: state after injected faults and a successful retry differs from a fault-free run:\n%s", op.Name, d.What)})
					}
				}
			}
			return x.fail(w.RestartDiff(x.st)) || true
		}
		x.st["c10-faults-injected"]++
		x.st["c10-fault@"+op.Kind+":"+lf.Op]++
		w.Logf("%s FAULT@%d (%s %s) -> %s", op.Name, k, lf.Op, lf.Path, okOr(err))
		if err == nil {
			return x.fail(df("c10:swallowed-write-error:"+op.Kind+":"+lastSeg(lf.Path), "%s reported success although its write #%d failed (%s in bucket %q, key %d bytes)", op.Name, k, lf.Op, lf.Path, len(lf.Key)))
		}
		after := w.Battery(w.DB, w.M)
		if d := DiffBattery(before, after, "before", "after "); d != nil {
			return x.fail(&Diff{"c10:state-changed-after-rolled-back-fault:" + op.Kind + ":" + d.Key, fmt.Sprintf("after %s failed at write #%d (%s %q) and its transaction rolled back, the manager answers differently:\n%s", op.Name, k, lf.Op, lf.Path, d.What)})
		}
		if k%3 == 1 {
			if x.fail(w.RestartDiff(x.st)) {
				return true
			}
		}
	}
	return x.fail(df("harness:sweep-runaway", "%s", op.Name))
}

func lastSeg(p string) string {
	if i := strings.LastIndex(p, "/"); i >= 0 {
		return p[i+1:]
	}
	return p
}

// afterConvert (C04 second sentence): after conversion to watching-only a
// REOPENED wallet still knows every address, no passphrase ever used unlocks
// it, and no call returns private material.
func (x *run) afterConvert() {
	w := x.w
	if err := w.Restart(); err != nil {
		x.fail(df("harness:restart", "%v", err))
		return
	}
	w.Logf("restart [after conversion]")
	if !w.M.WatchOnly() {
		x.fail(df("c04:not-watch-only-after-restart", "after ConvertToWatchingOnly and a restart the manager is not watching-only"))
		return
	}
	for _, p := range append(append([][]byte{}, w.OldPriv...), w.OldPub...) {
		p := p
		err := w.View(func(ns walletdb.ReadBucket) error { return w.M.Unlock(ns, append([]byte(nil), p...)) })
		x.st["c04-unlock-attempts-after-conversion"]++
		if err == nil || !w.M.IsLocked() && !w.M.WatchOnly() {
			x.fail(df("c04:unlock-after-conversion", "passphrase %q unlocks a wallet that was converted to watching-only", p))
			return
		}
		if c := errCode(err); c != "ErrWatchingOnly" {
			x.fail(df("c04:unlock-after-conversion-wrong-error", "Unlock after conversion failed with %v instead of a watching-only error", err))
			return
		}
	}
	if x.fail(w.SweepAll(x.st)) {
		return
	}
	if x.fail(w.AccessBattery(x.st, 0)) {
		return
	}
	// nothing that is still stored may open under the private crypto key the
	// wallet had: the conversion must have removed every private record, not
	// only flagged the wallet (logical content; freed pages are not inspected)
	if len(w.PrivCryptoKey) == 32 {
		var key [32]byte
		copy(key[:], w.PrivCryptoKey)
		var hit string
		tried := 0
		var walk func(b walletdb.ReadBucket, path string)
		walk = func(b walletdb.ReadBucket, path string) {
			b.ForEach(func(k, v []byte) error {
				if hit != "" {
					return nil
				}
				if v == nil {
					if nb := b.NestedReadBucket(k); nb != nil {
						walk(nb, path+"/"+string(k))
					}
					return nil
				}
				try := func(ct []byte, what string) {
					if hit != "" || len(ct) < 24+secretbox.Overhead+1 {
						return
					}
					tried++
					var nonce [24]byte
					copy(nonce[:], ct[:24])
					if pt, ok := secretbox.Open(nil, ct[24:], &nonce, &key); ok {
						hit = fmt.Sprintf("%s of key %x in bucket %q still opens under the wallet's private crypto key (%d plaintext bytes)", what, k, path, len(pt))
					}
				}
				try(v, "the value")
				for p := 0; p+4 <= len(v); p++ {
					l := int(binary.LittleEndian.Uint32(v[p:]))
					if l >= 24+secretbox.Overhead+1 && l <= len(v)-p-4 {
						try(v[p+4:p+4+l], fmt.Sprintf("the %d-byte field at offset %d of the value", l, p+4))
					}
				}
				return nil
			})
		}
		w.View(func(ns walletdb.ReadBucket) error { walk(ns, "waddrmgr"); return nil })
		x.st["c04-post-conversion-private-key-open-attempts"] += tried
		if hit != "" {
			x.fail(df("c04:private-record-survives-conversion", "after ConvertToWatchingOnly and a restart: %s", hit))
			return
		}
	}
	x.st["c04-conversions-checked"]++
}
