package mgr

import (
	"fmt"
	"sort"
	"time"

	"github.com/btcsuite/btcd/btcec/v2"
	"github.com/btcsuite/btcd/btcec/v2/schnorr"
	"github.com/btcsuite/btcd/btcutil"
	"github.com/btcsuite/btcd/btcutil/hdkeychain"
	"github.com/btcsuite/btcd/chaincfg/chainhash"
	"github.com/btcsuite/btcd/txscript"
	"github.com/btcsuite/btcwallet/waddrmgr"
	"github.com/btcsuite/btcwallet/walletdb"

	"verif/internal/oracle"
)

// Op is one generated operation.
type Op struct {
	Name    string
	Kind    string
	Issuing bool // pure address issuance: may be placed in a rolled-back transaction (O-7)
	// Run executes inside a read-write database transaction.
	Run func(ns walletdb.ReadWriteBucket) error
	// NoTx executes outside any transaction (lock, cache invalidation, restart).
	NoTx func() error
	// Post updates harness bookkeeping after the transaction committed.
	Post func()
	// WantErr, if set, is the manager error code the oracle demands ("" = must succeed);
	// WantAny means the outcome is not asserted.
	WantErr string
	WantAny bool
	// WantFail: any error is right, success is wrong
	WantFail bool
	// Returned are the managed addresses the operation handed out, Expected
	// the oracle's view of them (same order).
	Returned                   []waddrmgr.ManagedAddress
	Expected                   []*Addr
	Mutates                    bool // writes to the database when it succeeds
	CacheFilled, CacheKeyWrong bool
}

// Weights selects the operation mix.
type Weights struct {
	Next, Extend, Lookup, MarkUsed, Lock, Unlock, UnlockWrong, ChangePriv, ChangePub,
	NewAccount, Rename, ImportPriv, ImportPub, ImportScript, ImportWScript, ImportTScript, ImportXPub,
	Restart, DerivePath, Invalidate, SyncedTo, NewScope, Convert, SyncedToGap, Neuter, Reimport int
}

var DefaultWeights = Weights{Next: 18, Extend: 6, Lookup: 8, MarkUsed: 5, Lock: 5, Unlock: 7, UnlockWrong: 3, ChangePriv: 3, ChangePub: 2,
	NewAccount: 4, Rename: 3, ImportPriv: 3, ImportPub: 2, ImportScript: 2, ImportWScript: 2, ImportTScript: 1, ImportXPub: 3,
	Restart: 4, DerivePath: 5, Invalidate: 3, SyncedTo: 4, NewScope: 1, Reimport: 2}

func (w *World) pickScope() waddrmgr.KeyScope { return w.Scopes[w.R.Intn(len(w.Scopes))] }
func (w *World) pickAcct(s waddrmgr.KeyScope) *Acct {
	as := w.Accts[s]
	return as[w.R.Intn(len(as))]
}

var bs0 = func(w *World) *waddrmgr.BlockStamp {
	return &waddrmgr.BlockStamp{Height: 0, Hash: *w.Params.GenesisHash, Timestamp: w.Params.GenesisBlock.Header.Timestamp}
}

// impStamp is the block stamp handed to an import: the genesis block, or (half
// of the time, once the manager has followed the chain) a block the manager has
// been synced through.  Neither is older than the manager's start block
// (genesis), so no import moves the start block.
func (w *World) impStamp() *waddrmgr.BlockStamp {
	if w.Height > 0 && len(w.Hashes) > 0 && w.R.Intn(2) == 0 {
		var hs []int
		for h := range w.Hashes {
			hs = append(hs, int(h))
		}
		sort.Ints(hs)
		h := int32(hs[w.R.Intn(len(hs))])
		return &waddrmgr.BlockStamp{Height: h, Hash: w.Hashes[h], Timestamp: time.Unix(int64(1600000000+int(h)*600), 0)}
	}
	return bs0(w)
}

// Gen draws the next operation.
func (w *World) Gen(wt Weights) *Op {
	type ent struct {
		n int
		f func() *Op
	}
	es := []ent{
		{wt.Next, w.opNext}, {wt.Extend, w.opExtend}, {wt.Lookup, w.opLookup}, {wt.MarkUsed, w.opMarkUsed},
		{wt.Lock, w.opLock}, {wt.Unlock, func() *Op { return w.opUnlock(true) }}, {wt.UnlockWrong, func() *Op { return w.opUnlock(false) }},
		{wt.ChangePriv, func() *Op { return w.opChangePass(true) }}, {wt.ChangePub, func() *Op { return w.opChangePass(false) }},
		{wt.NewAccount, w.opNewAccount}, {wt.Rename, w.opRename}, {wt.ImportPriv, w.opImportPriv}, {wt.ImportPub, w.opImportPub},
		{wt.ImportScript, func() *Op { return w.opImportScript("script") }}, {wt.ImportWScript, func() *Op { return w.opImportScript("wscript") }},
		{wt.ImportTScript, func() *Op { return w.opImportScript("tscript") }}, {wt.ImportXPub, w.opImportXPub},
		{wt.Restart, w.opRestart}, {wt.DerivePath, w.opDerivePath}, {wt.Invalidate, w.opInvalidate}, {wt.SyncedTo, w.opSyncedTo}, {wt.NewScope, w.opNewScope}, {wt.Convert, w.opConvert}, {wt.SyncedToGap, w.opSyncedToGap}, {wt.Neuter, w.opNeuter}, {wt.Reimport, w.opReimport},
	}
	tot := 0
	for _, e := range es {
		tot += e.n
	}
	for tries := 0; tries < 20; tries++ {
		k := w.R.Intn(tot)
		for _, e := range es {
			if k < e.n {
				if op := e.f(); op != nil {
					return op
				}
				break
			}
			k -= e.n
		}
	}
	return w.opNext()
}

func (w *World) opNext() *Op {
	s := w.pickScope()
	a := w.pickAcct(s)
	n := uint32(1 + w.R.Intn(3))
	branch := uint32(w.R.Intn(2))
	op := &Op{Kind: "next", Issuing: true, Mutates: true, Name: fmt.Sprintf("next %v/%d branch=%d n=%d", s, a.Num, branch, n)}
	// sometimes a smaller request on the same branch precedes it INSIDE the same
	// database transaction.  Memory is only updated at commit, so both start from
	// the same index; what the first returns is not judged here, only that
	// memory and disk agree afterwards (C08) and the bookkeeping stays right.
	first := uint32(0)
	if w.R.Intn(6) == 0 {
		first = 1 + uint32(w.R.Intn(int(n)))
		op.Name += fmt.Sprintf(" (preceded in the same transaction by a request for %d)", first)
	}
	locked := !w.Unlocked()
	op.Run = func(ns walletdb.ReadWriteBucket) error {
		sm := w.Scoped(s)
		var got []waddrmgr.ManagedAddress
		var err error
		if first > 0 {
			if branch == 1 {
				_, err = sm.NextInternalAddresses(ns, a.Num, first)
			} else {
				_, err = sm.NextExternalAddresses(ns, a.Num, first)
			}
			if err != nil {
				return err
			}
		}
		if branch == 1 {
			got, err = sm.NextInternalAddresses(ns, a.Num, n)
		} else {
			got, err = sm.NextExternalAddresses(ns, a.Num, n)
		}
		op.Returned = got
		op.Expected = nil
		if err == nil {
			for i := range got {
				e, eerr := w.Expect(a, branch, a.Next[branch]+uint32(i))
				if eerr != nil {
					return fmt.Errorf("oracle: %w", eerr)
				}
				e.Locked = locked
				op.Expected = append(op.Expected, e)
			}
		}
		return err
	}
	op.Post = func() {
		for _, e := range op.Expected {
			w.Register(e)
		}
		a.Next[branch] += n
	}
	return op
}

func (w *World) opExtend() *Op {
	s := w.pickScope()
	a := w.pickAcct(s)
	branch := uint32(w.R.Intn(2))
	last := a.Next[branch] + uint32(w.R.Intn(5))
	if w.R.Intn(4) == 0 && a.Next[branch] > 0 {
		last = uint32(w.R.Intn(int(a.Next[branch]))) // below next: no-op
	}
	op := &Op{Kind: "extend", Issuing: false, Mutates: true, Name: fmt.Sprintf("extend %v/%d branch=%d last=%d (next %d)", s, a.Num, branch, last, a.Next[branch])}
	locked := !w.Unlocked()
	op.Run = func(ns walletdb.ReadWriteBucket) error {
		sm := w.Scoped(s)
		if branch == 1 {
			return sm.ExtendInternalAddresses(ns, a.Num, last)
		}
		return sm.ExtendExternalAddresses(ns, a.Num, last)
	}
	op.Post = func() {
		for i := a.Next[branch]; i <= last; i++ {
			if e, err := w.Expect(a, branch, i); err == nil {
				e.Locked = locked
				e.ByExtend = true
				w.Register(e)
			}
		}
		if last+1 > a.Next[branch] {
			a.Next[branch] = last + 1
		}
	}
	return op
}

func (w *World) pickAddr() *Addr {
	if len(w.Addrs) == 0 {
		return nil
	}
	return w.Addrs[w.R.Intn(len(w.Addrs))]
}

func (w *World) opLookup() *Op {
	e := w.pickAddr()
	if e == nil {
		return nil
	}
	op := &Op{Kind: "lookup", Name: "lookup " + e.Str}
	op.Run = func(ns walletdb.ReadWriteBucket) error {
		ma, err := w.M.Address(ns, e.A)
		if err == nil {
			op.Returned = []waddrmgr.ManagedAddress{ma}
			op.Expected = []*Addr{e}
		}
		return err
	}
	return op
}

func (w *World) opMarkUsed() *Op {
	e := w.pickAddr()
	if e == nil {
		return nil
	}
	op := &Op{Kind: "markused", Mutates: true, Name: "markused " + e.Str}
	op.Run = func(ns walletdb.ReadWriteBucket) error { return w.M.MarkUsed(ns, e.A) }
	op.Post = func() { e.Used = true }
	return op
}

func (w *World) opLock() *Op {
	op := &Op{Kind: "lock", Name: "lock"}
	switch {
	case w.WatchOnly:
		op.WantErr = "ErrWatchingOnly"
	case w.M.IsLocked():
		op.WantErr = "ErrLocked"
	}
	op.NoTx = func() error { return w.M.Lock() }
	return op
}

func (w *World) opUnlock(right bool) *Op {
	pass := w.PrivPass
	name := "unlock(right)"
	op := &Op{Kind: "unlock"}
	if !right {
		op.Kind = "unlock-wrong"
		pass = w.wrongPass()
		name = fmt.Sprintf("unlock(wrong %q)", pass)
		op.WantErr = "ErrWrongPassphrase"
	}
	if w.WatchOnly {
		op.WantErr = "ErrWatchingOnly"
	}
	op.Name = name
	op.Run = func(ns walletdb.ReadWriteBucket) error { return w.M.Unlock(ns, append([]byte(nil), pass...)) }
	return op
}

// wrongPass returns a passphrase that is not the current private one:
// near-misses and previously valid passphrases.
func (w *World) wrongPass() []byte {
	cur := w.PrivPass
	var c []byte
	switch w.R.Intn(7) {
	case 0:
		c = append([]byte(nil), cur[:len(cur)-1]...) // truncated
	case 1:
		c = append(append([]byte(nil), cur...), 'x') // extended
	case 2:
		c = append([]byte(nil), cur...)
		c[w.R.Intn(len(c))] ^= 0x20 // case flip
	case 3:
		c = []byte{}
	case 4:
		c = append([]byte(nil), w.PubPass...) // the public passphrase
	case 5:
		if len(w.OldPriv) > 1 {
			c = append([]byte(nil), w.OldPriv[w.R.Intn(len(w.OldPriv)-1)]...) // a previous passphrase
		} else {
			c = []byte("never-used")
		}
	default:
		c = append([]byte(nil), cur...)
		c[w.R.Intn(len(c))] ^= 0x01
	}
	if string(c) == string(cur) {
		c = append(c, '!')
	}
	return c
}

func (w *World) opChangePass(private bool) *Op {
	np := []byte(fmt.Sprintf("pass-%v-%08x", private, w.R.Uint32()))
	old := w.PubPass
	if private {
		old = w.PrivPass
	}
	wrong := w.R.Intn(5) == 0
	op := &Op{Kind: "changepass", Mutates: true}
	if wrong {
		old = append(append([]byte(nil), old...), '?')
		op.WantErr = "ErrWrongPassphrase"
	}
	if private && w.WatchOnly {
		op.WantErr = "ErrWatchingOnly"
	}
	op.Name = fmt.Sprintf("changepass private=%v wrongOld=%v new=%q", private, wrong, np)
	op.Run = func(ns walletdb.ReadWriteBucket) error {
		return w.M.ChangePassphrase(ns, append([]byte(nil), old...), append([]byte(nil), np...), private, &waddrmgr.FastScryptOptions)
	}
	op.Post = func() {
		if private {
			w.PrivPass = np
			w.OldPriv = append(w.OldPriv, np)
			w.secret("privpass", np)
		} else {
			w.PubPass = np
			w.OldPub = append(w.OldPub, np)
			w.secret("pubpass", np)
		}
	}
	return op
}

func (w *World) opNewAccount() *Op {
	s := w.pickScope()
	name := fmt.Sprintf("acct-%d-%d", s.Purpose, w.R.Intn(100000))
	op := &Op{Kind: "newaccount", Mutates: true, Name: fmt.Sprintf("newaccount %v %q", s, name)}
	switch {
	case w.WatchOnly:
		op.WantErr = "ErrWatchingOnly"
	case w.M.IsLocked():
		op.WantErr = "ErrLocked"
	}
	var num uint32
	op.Run = func(ns walletdb.ReadWriteBucket) error {
		sm := w.Scoped(s)
		var err error
		num, err = sm.NewAccount(ns, name)
		return err
	}
	op.Post = func() {
		leg, std, differ, err := oracle.AccountKey(w.Seed, s.Purpose, s.Coin, num)
		if err != nil {
			return
		}
		// The unchanged code derives accounts >= 1 from the coin-type key
		// re-read from its serialisation, i.e. standard BIP32; the property
		// text speaks of the legacy rule. Either is admitted for N >= 1
		// (DESIGN O-9) and the choice is resolved, once, from the account
		// public key the manager reports.
		a := &Acct{Scope: s, Num: num, Name: name, Key: std, ChildIx: oracle.H + num}
		if differ {
			alt := leg
			a.AltKey = &alt
		}
		w.Accts[s] = append(w.Accts[s], a)
		w.Names = append(w.Names, name)
		w.acctSecrets(a)
		if differ {
			aa := *a
			aa.Key = leg
			w.acctSecrets(&aa)
		}
	}
	return op
}

func (w *World) opRename() *Op {
	s := w.pickScope()
	a := w.pickAcct(s)
	name := fmt.Sprintf("ren-%d", w.R.Intn(100000))
	op := &Op{Kind: "rename", Mutates: true, Name: fmt.Sprintf("rename %v/%d -> %q", s, a.Num, name)}
	op.Run = func(ns walletdb.ReadWriteBucket) error { return w.Scoped(s).RenameAccount(ns, a.Num, name) }
	op.Post = func() { a.Name = name; w.Names = append(w.Names, name) }
	return op
}

func (w *World) importedType(s waddrmgr.KeyScope) waddrmgr.AddressType {
	return w.Schemas[s].ExternalAddrType
}

func (w *World) opImportPriv() *Op {
	s := w.pickScope()
	kb := make([]byte, 32)
	w.R.Read(kb)
	kb[0] |= 1
	priv, pub := btcec.PrivKeyFromBytes(kb)
	wif, err := btcutil.NewWIF(priv, w.Params, true)
	if err != nil {
		return nil
	}
	t := w.importedType(s)
	k, ok := kindOf(t)
	if !ok {
		return nil
	}
	var p33 [33]byte
	copy(p33[:], pub.SerializeCompressed())
	addr, err := oracle.Address(p33, k, w.Params)
	if err != nil {
		return nil
	}
	e := &Addr{A: addr, Str: addr.String(), Scope: s, Acct: waddrmgr.ImportedAddrAccount, Kind: "imppriv", Pub: p33[:], Priv: kb, Type: t}
	w.secret("imported-key "+e.Str, kb)
	w.secret("imported-wif "+e.Str, []byte(wif.String()))
	stamp := w.impStamp()
	op := &Op{Kind: "importpriv", Mutates: true, Name: fmt.Sprintf("importpriv %v -> %s", s, e.Str)}
	switch {
	case w.M.IsLocked() && !w.WatchOnly:
		op.WantErr = "ErrLocked"
	}
	if w.WatchOnly {
		e.Priv = nil
		e.Kind = "imppub"
	}
	op.Run = func(ns walletdb.ReadWriteBucket) error {
		sm := w.Scoped(s)
		ma, err := sm.ImportPrivateKey(ns, wif, stamp)
		if err == nil {
			op.Returned = []waddrmgr.ManagedAddress{ma}
			op.Expected = []*Addr{e}
		}
		return err
	}
	op.Post = func() { w.Register(e) }
	return op
}

// opReimport imports the key of an address the manager already has (issued from
// the chain or imported earlier) into the same scope: it must be refused as a
// duplicate, whether the address is still cached or only on disk (used
// addresses are evicted; a restart empties the cache), and the address must
// stay what it was (the sweeps look every address up again).
func (w *World) opReimport() *Op {
	var cands []*Addr
	for _, e := range w.SortedAddrs() {
		if len(e.Pub) != 33 || (e.Kind != "chain" && e.Kind != "imppriv" && e.Kind != "imppub") {
			continue
		}
		if _, ok := w.Schemas[e.Scope]; !ok || e.Type != w.importedType(e.Scope) {
			continue
		}
		cands = append(cands, e)
	}
	if len(cands) == 0 {
		return nil
	}
	e := cands[w.R.Intn(len(cands))]
	pub, err := btcec.ParsePubKey(e.Pub)
	if err != nil {
		return nil
	}
	byPriv := e.Priv != nil && w.Unlocked() && w.R.Intn(2) == 0
	stamp := w.impStamp()
	op := &Op{Kind: "reimport", Name: fmt.Sprintf("import the key of the known %s address %s again (private=%v, used=%v)", e.Kind, e.Str, byPriv, e.Used), WantErr: "ErrDuplicateAddress"}
	s := e.Scope
	op.Run = func(ns walletdb.ReadWriteBucket) error {
		sm := w.Scoped(s)
		if byPriv {
			priv, _ := btcec.PrivKeyFromBytes(e.Priv)
			wif, err := btcutil.NewWIF(priv, w.Params, true)
			if err != nil {
				return fmt.Errorf("oracle: %w", err)
			}
			_, err = sm.ImportPrivateKey(ns, wif, stamp)
			return err
		}
		_, err := sm.ImportPublicKey(ns, pub, stamp)
		return err
	}
	return op
}

func (w *World) opImportPub() *Op {
	s := w.pickScope()
	kb := make([]byte, 32)
	w.R.Read(kb)
	kb[0] |= 1
	_, pub := btcec.PrivKeyFromBytes(kb)
	t := w.importedType(s)
	k, ok := kindOf(t)
	if !ok {
		return nil
	}
	var p33 [33]byte
	copy(p33[:], pub.SerializeCompressed())
	addr, err := oracle.Address(p33, k, w.Params)
	if err != nil {
		return nil
	}
	e := &Addr{A: addr, Str: addr.String(), Scope: s, Acct: waddrmgr.ImportedAddrAccount, Kind: "imppub", Pub: p33[:], Type: t}
	stamp := w.impStamp()
	op := &Op{Kind: "importpub", Mutates: true, Name: fmt.Sprintf("importpub %v -> %s", s, e.Str)}
	op.Run = func(ns walletdb.ReadWriteBucket) error {
		sm := w.Scoped(s)
		ma, err := sm.ImportPublicKey(ns, pub, stamp)
		if err == nil {
			op.Returned = []waddrmgr.ManagedAddress{ma}
			op.Expected = []*Addr{e}
		}
		return err
	}
	op.Post = func() { w.Register(e) }
	return op
}

func (w *World) randScript() []byte {
	kb := make([]byte, 32)
	w.R.Read(kb)
	kb[0] |= 1
	_, p1 := btcec.PrivKeyFromBytes(kb)
	w.R.Read(kb)
	kb[0] |= 1
	_, p2 := btcec.PrivKeyFromBytes(kb)
	sc, _ := txscript.NewScriptBuilder().AddOp(txscript.OP_2).AddData(p1.SerializeCompressed()).AddData(p2.SerializeCompressed()).AddOp(txscript.OP_2).AddOp(txscript.OP_CHECKMULTISIG).Script()
	return sc
}

func (w *World) opImportScript(kind string) *Op {
	s := w.pickScope()
	script := w.randScript()
	secret := true
	var addr btcutil.Address
	var err error
	var t waddrmgr.AddressType
	var tap *waddrmgr.Tapscript
	switch kind {
	case "script":
		addr, err = btcutil.NewAddressScriptHash(script, w.Params)
		t = waddrmgr.Script
	case "wscript":
		secret = w.R.Intn(2) == 0
		h := chainhash.HashB(script)
		addr, err = btcutil.NewAddressWitnessScriptHash(h, w.Params)
		t = waddrmgr.WitnessScript
	case "tscript":
		secret = w.R.Intn(2) == 0
		kb := make([]byte, 32)
		w.R.Read(kb)
		kb[0] |= 1
		_, ik := btcec.PrivKeyFromBytes(kb)
		leaf := txscript.NewBaseTapLeaf(script)
		tap = &waddrmgr.Tapscript{Type: waddrmgr.TapscriptTypeFullTree, ControlBlock: &txscript.ControlBlock{InternalKey: ik}, Leaves: []txscript.TapLeaf{leaf}}
		tree := txscript.AssembleTaprootScriptTree(leaf)
		root := tree.RootNode.TapHash()
		ok := txscript.ComputeTaprootOutputKey(ik, root[:])
		addr, err = btcutil.NewAddressTaproot(schnorr.SerializePubKey(ok), w.Params)
		t = waddrmgr.TaprootScript
	}
	if err != nil {
		return nil
	}
	e := &Addr{A: addr, Str: addr.String(), Scope: s, Acct: waddrmgr.ImportedAddrAccount, Kind: kind, Script: script, Secret: secret, Type: t}
	stamp := w.impStamp()
	op := &Op{Kind: "import" + kind, Mutates: true, Name: fmt.Sprintf("import %s %v secret=%v -> %s", kind, s, secret, e.Str)}
	if secret {
		w.secret("imported-script "+e.Str, script)
	} else {
		// a script imported as not secret is still public material (it holds
		// public keys, the address follows from it): it is sealed under the
		// public crypto key and must not appear in the file in the clear while
		// no transaction is recorded
		w.public("imported-public-script "+e.Str, script)
		if len(script) > 36 {
			w.public("public key inside imported public script "+e.Str, script[2:35])
		}
	}
	if secret {
		switch {
		case w.M.IsLocked() && !w.WatchOnly:
			op.WantErr = "ErrLocked"
		case w.WatchOnly:
			op.WantErr = "ErrWatchingOnly"
		}
		if w.WatchOnly && w.M.IsLocked() {
			op.WantAny = true // a watch-only manager also reports itself locked; either refusal is fine
		}
	}
	op.Run = func(ns walletdb.ReadWriteBucket) error {
		sm := w.Scoped(s)
		var ma waddrmgr.ManagedAddress
		var err error
		switch kind {
		case "script":
			ma, err = sm.ImportScript(ns, script, stamp)
		case "wscript":
			ma, err = sm.ImportWitnessScript(ns, script, stamp, 0, secret)
		case "tscript":
			ma, err = sm.ImportTaprootScript(ns, tap, stamp, 1, secret)
		}
		if err == nil {
			op.Returned = []waddrmgr.ManagedAddress{ma}
			op.Expected = []*Addr{e}
		}
		return err
	}
	op.Post = func() { w.Register(e) }
	return op
}

// opImportXPub imports an extended public key as a watch-only account.
func (w *World) opImportXPub() *Op {
	s := w.pickScope()
	sd := make([]byte, 32)
	w.R.Read(sd)
	acctNum := uint32(w.R.Intn(5))
	leg, _, _, err := oracle.AccountKey(sd, s.Purpose, s.Coin, acctNum)
	if err != nil {
		return nil
	}
	pub := leg.Neuter()
	fp := w.R.Uint32()
	hd := hdkeychain.NewExtendedKey(w.Params.HDPublicKeyID[:], pub.Pub[:], pub.Chain[:], []byte{1, 2, 3, 4}, 3, oracle.H+acctNum, false)
	var schema *waddrmgr.ScopeAddrSchema
	if w.R.Intn(2) == 0 {
		choices := []waddrmgr.ScopeAddrSchema{
			waddrmgr.KeyScopeBIP0049AddrSchema,
			{ExternalAddrType: waddrmgr.WitnessPubKey, InternalAddrType: waddrmgr.WitnessPubKey},
			{ExternalAddrType: waddrmgr.NestedWitnessPubKey, InternalAddrType: waddrmgr.WitnessPubKey},
			{ExternalAddrType: waddrmgr.PubKeyHash, InternalAddrType: waddrmgr.PubKeyHash},
			{ExternalAddrType: waddrmgr.TaprootPubKey, InternalAddrType: waddrmgr.TaprootPubKey},
		}
		c := choices[w.R.Intn(len(choices))]
		schema = &c
	}
	name := fmt.Sprintf("xpub-%d-%d", s.Purpose, w.R.Intn(100000))
	op := &Op{Kind: "importxpub", Mutates: true, Name: fmt.Sprintf("importxpub %v %q schema=%v", s, name, schema)}
	var num uint32
	op.Run = func(ns walletdb.ReadWriteBucket) error {
		sm := w.Scoped(s)
		var err error
		num, err = sm.NewAccountWatchingOnly(ns, name, hd, fp, schema)
		return err
	}
	op.Post = func() {
		a := &Acct{Scope: s, Num: num, Name: name, XPub: true, Key: pub, Schema: schema, ChildIx: oracle.H + acctNum, FP: fp, HDPub: hd}
		w.Accts[s] = append(w.Accts[s], a)
		w.Names = append(w.Names, name)
		w.acctSecrets(a)
		w.public("xpub-str "+name, []byte(hd.String()))
	}
	return op
}

func (w *World) opRestart() *Op {
	op := &Op{Kind: "restart", Name: "restart (close and reopen)"}
	op.NoTx = func() error { return w.Restart() }
	return op
}

func (w *World) opDerivePath() *Op {
	s := w.pickScope()
	a := w.pickAcct(s)
	// branches beyond 0/1 are used as key families by callers of DeriveFromKeyPath
	branch := []uint32{0, 1, 0, 1, 2, 7}[w.R.Intn(6)]
	var index uint32
	switch {
	case branch > 1:
		index = uint32(w.R.Intn(60))
	case a.Next[branch] > 0 && w.R.Intn(3) != 0:
		index = uint32(w.R.Intn(int(a.Next[branch])))
	default:
		index = a.Next[branch] + uint32(w.R.Intn(50)) // a path never issued
	}
	locked := !w.Unlocked()
	kp := waddrmgr.DerivationPath{InternalAccount: a.Num, Account: a.ChildIx, Branch: branch, Index: index, MasterKeyFingerprint: a.FP}
	op := &Op{Kind: "derivepath", Name: fmt.Sprintf("derivepath %v/%d/%d/%d", s, a.Num, branch, index)}
	var second *waddrmgr.DerivationPath
	op.Run = func(ns walletdb.ReadWriteBucket) error {
		sm := w.Scoped(s)
		ma, err := sm.DeriveFromKeyPath(ns, kp)
		if err != nil {
			return err
		}
		e, eerr := w.Expect(a, branch, index)
		if eerr != nil {
			return fmt.Errorf("oracle: %w", eerr)
		}
		e.Locked = locked
		op.Returned = []waddrmgr.ManagedAddress{ma}
		op.Expected = []*Addr{e}
		// the cached variant: fills the derived-key cache when unlocked
		if w.Unlocked() && e.Priv != nil {
			k, err := sm.DeriveFromKeyPathCache(kp)
			if err != nil {
				return fmt.Errorf("DeriveFromKeyPathCache while unlocked: %w", err)
			}
			if !eq(k.Serialize(), e.Priv) {
				op.CacheKeyWrong = true
			}
			op.CacheFilled = true
			// a careful caller wipes the key it was handed once it has signed; the
			// next callers (cache hits) must still get the real key, and wiping
			// theirs must not reach back into the cache either
			for round := 0; round < 2; round++ {
				k2, err := sm.DeriveFromKeyPathCache(kp)
				if err != nil {
					return fmt.Errorf("DeriveFromKeyPathCache (cache hit) while unlocked: %w", err)
				}
				if !eq(k2.Serialize(), e.Priv) {
					op.CacheKeyWrong = true
				}
				k2.Zero()
			}
			if k3, err := sm.DeriveFromKeyPathCache(kp); err != nil || !eq(k3.Serialize(), e.Priv) {
				op.CacheKeyWrong = true
			}
			// and the neighbouring path, so that the cache of this scope holds more than
			// one key when the manager locks next
			kp2 := kp
			kp2.Index++
			if e2, err := w.Expect(a, branch, kp2.Index); err == nil && e2.Priv != nil {
				if k4, err := sm.DeriveFromKeyPathCache(kp2); err != nil || !eq(k4.Serialize(), e2.Priv) {
					op.CacheKeyWrong = true
				}
				second = &kp2
			}
		}
		return nil
	}
	op.Post = func() {
		w.Paths = append(w.Paths, PathRec{s, kp})
		if second != nil {
			w.Paths = append(w.Paths, PathRec{s, *second})
		}
	}
	return op
}

func (w *World) opInvalidate() *Op {
	s := w.pickScope()
	a := w.pickAcct(s)
	op := &Op{Kind: "invalidate", Name: fmt.Sprintf("invalidate account cache %v/%d", s, a.Num)}
	op.NoTx = func() error { w.Scoped(s).InvalidateAccountCache(a.Num); return nil }
	return op
}

func (w *World) opSyncedTo() *Op {
	h := w.Height + 1
	var hash chainhash.Hash
	w.R.Read(hash[:])
	bs := &waddrmgr.BlockStamp{Height: h, Hash: hash, Timestamp: time.Unix(int64(1600000000+int(h)*600), 0)}
	op := &Op{Kind: "syncedto", Mutates: true, Name: fmt.Sprintf("syncedto %d", h)}
	op.Run = func(ns walletdb.ReadWriteBucket) error { return w.M.SetSyncedTo(ns, bs) }
	op.Post = func() { w.Height = h; w.Hashes[h] = hash }
	return op
}

// opNewScope creates a custom key scope.
func (w *World) opNewScope() *Op {
	// a watch-only manager creates scopes without a default account; the
	// harness does not model account-less scopes
	if w.WatchOnly {
		return nil
	}
	// 1 in 4: a scope that exists already is registered again (with any schema):
	// refused, and nothing about the existing scope may change
	if w.R.Intn(4) == 0 {
		s := w.Scopes[w.R.Intn(len(w.Scopes))]
		schema := waddrmgr.ScopeAddrSchema{ExternalAddrType: waddrmgr.WitnessPubKey, InternalAddrType: waddrmgr.WitnessPubKey}
		op := &Op{Kind: "newscope-existing", Mutates: true, WantFail: true, Name: fmt.Sprintf("newscope %v again (it exists)", s)}
		op.Run = func(ns walletdb.ReadWriteBucket) error {
			_, err := w.M.NewScopedKeyManager(ns, s, schema)
			return err
		}
		return op
	}
	if len(w.Scopes) >= 6 || w.Neutered {
		return nil
	}
	s := waddrmgr.KeyScope{Purpose: uint32(1000 + w.R.Intn(1000)), Coin: uint32(w.R.Intn(3))}
	for _, x := range w.Scopes {
		if x == s {
			return nil
		}
	}
	schemas := []waddrmgr.ScopeAddrSchema{
		{ExternalAddrType: waddrmgr.WitnessPubKey, InternalAddrType: waddrmgr.WitnessPubKey},
		{ExternalAddrType: waddrmgr.NestedWitnessPubKey, InternalAddrType: waddrmgr.WitnessPubKey},
		{ExternalAddrType: waddrmgr.PubKeyHash, InternalAddrType: waddrmgr.PubKeyHash},
		{ExternalAddrType: waddrmgr.TaprootPubKey, InternalAddrType: waddrmgr.TaprootPubKey},
	}
	schema := schemas[w.R.Intn(len(schemas))]
	op := &Op{Kind: "newscope", Mutates: true, Name: fmt.Sprintf("newscope %v %v", s, schema)}
	switch {
	case w.WatchOnly:
		op.WantAny = true
	case w.M.IsLocked():
		op.WantErr = "ErrLocked"
	}
	op.Run = func(ns walletdb.ReadWriteBucket) error {
		_, err := w.M.NewScopedKeyManager(ns, s, schema)
		return err
	}
	op.Post = func() { w.registerScope(s, schema) }
	return op
}

// opNeuter deletes the encrypted master HD root key (no further scopes can be
// created afterwards); everything else keeps working.
func (w *World) opNeuter() *Op {
	if w.WatchOnly || w.Neutered {
		return nil
	}
	op := &Op{Kind: "neuter", Mutates: true, Name: "neuter root key"}
	op.Run = func(ns walletdb.ReadWriteBucket) error { return w.M.NeuterRootKey(ns) }
	op.Post = func() { w.Neutered = true }
	return op
}

// opConvert converts the manager to watching-only (terminal for private material).
func (w *World) opConvert() *Op {
	if w.WatchOnly {
		return nil
	}
	op := &Op{Kind: "convert", Mutates: true, Name: "convert to watching-only"}
	op.Run = func(ns walletdb.ReadWriteBucket) error { return w.M.ConvertToWatchingOnly(ns) }
	op.Post = func() {
		w.WatchOnly = true
		for _, as := range w.Accts {
			for _, a := range as {
				a.Key = a.Key.Neuter()
				if a.AltKey != nil {
					n := a.AltKey.Neuter()
					a.AltKey = &n
				}
			}
		}
		for _, e := range w.Addrs {
			e.Priv = nil
			if e.Kind == "imppriv" {
				e.Kind = "imppub"
			}
		}
	}
	return op
}

// opSyncedToGap offers a block that does not connect (its predecessor's hash
// is unknown): the manager must refuse it and memory must stay equal to disk.
func (w *World) opSyncedToGap() *Op {
	h := w.Height + 2 + int32(w.R.Intn(5))
	var hash chainhash.Hash
	w.R.Read(hash[:])
	bs := &waddrmgr.BlockStamp{Height: h, Hash: hash, Timestamp: time.Unix(int64(1600000000+int(h)*600), 0)}
	op := &Op{Kind: "syncedto-gap", Mutates: true, WantErr: "ErrBlockNotFound", Name: fmt.Sprintf("syncedto %d (gap: tip is %d)", h, w.Height)}
	op.Run = func(ns walletdb.ReadWriteBucket) error { return w.M.SetSyncedTo(ns, bs) }
	return op
}
