package mgr

import (
	"bytes"
	"crypto/sha256"
	"fmt"

	"github.com/btcsuite/btcd/btcec/v2"
	"github.com/btcsuite/btcd/btcec/v2/ecdsa"
	"github.com/btcsuite/btcwallet/waddrmgr"
	"github.com/btcsuite/btcwallet/walletdb"
)

// Diff is a disagreement between the manager and the oracle / a twin.
type Diff struct {
	Key  string
	What string
}

func (d *Diff) Error() string { return d.Key + ": " + d.What }

func df(key, f string, a ...any) *Diff { return &Diff{key, fmt.Sprintf(f, a...)} }

// Stats counts what the monitors actually looked at.
type Stats map[string]int

// CheckManaged judges one managed address handed out by the manager against
// the oracle's expectation e (C03). unlocked is the harness's view of the lock
// state at the time of the call.
func (w *World) CheckManaged(ma waddrmgr.ManagedAddress, e *Addr, route string, st Stats) *Diff {
	if ma == nil {
		return df("c03:nil-address", "%s: manager returned a nil address for %s", route, e.Str)
	}
	if got := ma.Address().String(); got != e.Str {
		return df("c03:wrong-address", "%s: %s branch %d index %d of %v/%d: manager says %s, seed derivation says %s", route, e.Kind, e.Branch, e.Index, e.Scope, e.Acct, got, e.Str)
	}
	st["c03-address-checks"]++
	if ma.AddrType() != e.Type {
		return df("c03:wrong-address-type", "%s: %s has type %v, expected %v", route, e.Str, ma.AddrType(), e.Type)
	}
	if ma.InternalAccount() != e.Acct {
		return df("c03:wrong-account", "%s: %s reports account %d, true account %d", route, e.Str, ma.InternalAccount(), e.Acct)
	}
	if e.Kind == "chain" {
		if ma.Internal() != (e.Branch == 1) {
			return df("c03:wrong-internal-flag", "%s: %s (branch %d) reports internal=%v", route, e.Str, e.Branch, ma.Internal())
		}
		if ma.Imported() {
			return df("c03:wrong-imported-flag", "%s: chain address %s reports imported", route, e.Str)
		}
	} else if !ma.Imported() {
		return df("c03:wrong-imported-flag", "%s: imported %s reports imported=false", route, e.Str)
	}
	switch e.Kind {
	case "chain", "imppriv", "imppub":
		pk, ok := ma.(waddrmgr.ManagedPubKeyAddress)
		if !ok {
			return df("c03:not-pubkey-address", "%s: %s is not a ManagedPubKeyAddress", route, e.Str)
		}
		if !bytes.Equal(pk.PubKey().SerializeCompressed(), e.Pub) {
			return df("c03:wrong-pubkey", "%s: %s public key %x, seed derivation gives %x", route, e.Str, pk.PubKey().SerializeCompressed(), e.Pub)
		}
		if !ma.Compressed() {
			return df("c03:wrong-compressed-flag", "%s: %s reports uncompressed", route, e.Str)
		}
		sc, dp, okd := pk.DerivationInfo()
		if e.Kind == "chain" {
			a := w.Acct(e.Scope, e.Acct)
			want := waddrmgr.DerivationPath{InternalAccount: e.Acct, Account: a.ChildIx, Branch: e.Branch, Index: e.Index, MasterKeyFingerprint: a.FP}
			if !okd || sc != e.Scope || dp != want {
				return df("c03:wrong-derivation-info", "%s: %s derivation info %v %+v ok=%v, true %v %+v", route, e.Str, sc, dp, okd, e.Scope, want)
			}
			st["c03-derivation-info-checks"]++
		} else if okd {
			return df("c03:wrong-derivation-info", "%s: imported %s reports a derivation path", route, e.Str)
		}
		if w.Unlocked() {
			priv, err := pk.PrivKey()
			switch {
			case e.Priv == nil:
				// watch-only account / imported public key: no key may come back
				if err == nil {
					return df("c03:privkey-for-watchonly", "%s: %s has no private key in the wallet, yet PrivKey() returned one", route, e.Str)
				}
			case err != nil:
				key := "c03:privkey-unavailable"
				if e.ByExtend {
					key += ":extended"
				}
				if e.Locked {
					key += ":issued-while-locked"
				}
				return df(key, "%s: unlocked manager cannot produce the private key of %s (%v/%d/%d/%d): %v", route, e.Str, e.Scope, e.Acct, e.Branch, e.Index, err)
			default:
				if !bytes.Equal(priv.Serialize(), e.Priv) {
					return df("c03:wrong-privkey", "%s: private key returned for %s is not the key of its public key", route, e.Str)
				}
				if !bytes.Equal(priv.PubKey().SerializeCompressed(), e.Pub) {
					return df("c03:wrong-privkey", "%s: private key of %s has public key %x", route, e.Str, priv.PubKey().SerializeCompressed())
				}
				// one sign / verify round against the oracle's public key
				h := sha256.Sum256([]byte(e.Str))
				sig := ecdsa.Sign(priv, h[:])
				op, _ := btcec.ParsePubKey(e.Pub)
				if !sig.Verify(h[:], op) {
					return df("c03:signature-does-not-verify", "%s: signature by the key returned for %s does not verify", route, e.Str)
				}
				wif, err := pk.ExportPrivKey()
				if err != nil || !bytes.Equal(wif.PrivKey.Serialize(), e.Priv) || !wif.CompressPubKey {
					return df("c03:wrong-exported-key", "%s: ExportPrivKey of %s: %v", route, e.Str, err)
				}
				st["c03-privkey-checks"]++
			}
		}
	case "script", "wscript", "tscript":
		sa, ok := ma.(waddrmgr.ManagedScriptAddress)
		if !ok {
			return df("c03:not-script-address", "%s: %s is not a ManagedScriptAddress", route, e.Str)
		}
		if w.Unlocked() || !e.Secret {
			sc, err := sa.Script()
			if err != nil {
				if w.WatchOnly && e.Secret {
					break
				}
				return df("c03:script-unavailable", "%s: Script() of imported %s (secret=%v): %v", route, e.Str, e.Secret, err)
			}
			if e.Kind == "tscript" {
				// stored TLV-encoded; compare through the typed accessor
				ts, ok := ma.(waddrmgr.ManagedTaprootScriptAddress)
				if !ok {
					return df("c03:not-taproot-script-address", "%s: %s", route, e.Str)
				}
				t, err := ts.TaprootScript()
				if err != nil || len(t.Leaves) != 1 || !bytes.Equal(t.Leaves[0].Script, e.Script) {
					return df("c03:imported-script-altered", "%s: taproot script of %s came back altered (%v)", route, e.Str, err)
				}
			} else if !bytes.Equal(sc, e.Script) {
				return df("c03:imported-script-altered", "%s: script of %s came back altered", route, e.Str)
			}
			st["c03-script-checks"]++
		}
	}
	return nil
}

// CheckOp judges the addresses an operation returned.
func (w *World) CheckOp(op *Op, st Stats) *Diff {
	if op.CacheKeyWrong {
		return df("c03:wrong-privkey:cached-derivation", "%s: DeriveFromKeyPathCache returned a key that is not the key of that path", op.Name)
	}
	if op.CacheFilled {
		st["derived-key-cache-fills"]++
	}
	if len(op.Returned) != len(op.Expected) {
		return df("c03:wrong-count", "%s returned %d addresses, expected %d", op.Name, len(op.Returned), len(op.Expected))
	}
	for i, ma := range op.Returned {
		if d := w.CheckManaged(ma, op.Expected[i], op.Kind, st); d != nil {
			return d
		}
	}
	return nil
}

// ResolveAccounts fixes, for seed accounts >= 1 whose coin-type key has a
// leading zero byte, which of the two admissible derivation rules the manager
// used (O-9), and checks every account's public key against the oracle.
func (w *World) ResolveAccounts(st Stats) *Diff {
	var d *Diff
	w.View(func(ns walletdb.ReadBucket) error {
		for _, s := range w.Scopes {
			sm := w.Scoped(s)
			for _, a := range w.Accts[s] {
				p, err := sm.AccountProperties(ns, a.Num)
				if err != nil {
					d = df("c03:account-missing", "AccountProperties(%v/%d): %v", s, a.Num, err)
					return nil
				}
				if p.AccountPubKey == nil {
					d = df("c03:account-pubkey-missing", "account %v/%d has no public key", s, a.Num)
					return nil
				}
				pk, err := p.AccountPubKey.ECPubKey()
				if err != nil {
					d = df("c03:account-pubkey-missing", "account %v/%d: %v", s, a.Num, err)
					return nil
				}
				got := pk.SerializeCompressed()
				if a.AltKey != nil && !a.Chosen {
					switch {
					case bytes.Equal(got, a.Key.Pub[:]):
					case bytes.Equal(got, a.AltKey.Pub[:]):
						a.Key = *a.AltKey
					}
					a.Chosen = true
					st["c03-leading-zero-account>=1-resolved"]++
				}
				if !bytes.Equal(got, a.Key.Pub[:]) {
					key := "c03:wrong-account-key"
					if a.Num == 0 && !a.XPub {
						key += ":account0"
					}
					d = df(key, "account %v/%d public key is %x, derivation from the seed (legacy rule for account 0) gives %x", s, a.Num, got, a.Key.Pub[:])
					return nil
				}
				if !bytes.Equal(p.AccountPubKey.ChainCode(), a.Key.Chain[:]) {
					d = df("c03:wrong-account-chaincode", "account %v/%d chain code differs from the seed derivation", s, a.Num)
					return nil
				}
				st["c03-account-key-checks"]++
				if p.ExternalKeyCount != a.Next[0] || p.InternalKeyCount != a.Next[1] {
					d = df("c03:index-not-consecutive", "account %v/%d reports %d external / %d internal keys, issued so far %d / %d", s, a.Num, p.ExternalKeyCount, p.InternalKeyCount, a.Next[0], a.Next[1])
					return nil
				}
			}
		}
		return nil
	})
	return d
}

// SweepAll looks up every known address again (by address, and chain
// addresses also by derivation path) and judges each (C03: looked up later,
// after restart, derived while locked then unlocked).
func (w *World) SweepAll(st Stats) *Diff {
	var d *Diff
	w.View(func(ns walletdb.ReadBucket) error {
		for _, e := range w.SortedAddrs() {
			ma, err := w.M.Address(ns, e.A)
			if err != nil {
				d = df("c03:issued-address-unknown", "address %s (%s %v/%d/%d/%d) was issued but Address() says: %v", e.Str, e.Kind, e.Scope, e.Acct, e.Branch, e.Index, err)
				return nil
			}
			if d = w.CheckManaged(ma, e, "lookup-sweep", st); d != nil {
				return nil
			}
			if e.Kind == "chain" {
				a := w.Acct(e.Scope, e.Acct)
				kp := waddrmgr.DerivationPath{InternalAccount: e.Acct, Account: a.ChildIx, Branch: e.Branch, Index: e.Index, MasterKeyFingerprint: a.FP}
				ma2, err := w.Scoped(e.Scope).DeriveFromKeyPath(ns, kp)
				if err != nil {
					d = df("c03:derive-by-path-failed", "DeriveFromKeyPath(%v %+v): %v", e.Scope, kp, err)
					return nil
				}
				if d = w.CheckManaged(ma2, e, "derive-by-path-sweep", st); d != nil {
					return nil
				}
			}
		}
		// last addresses
		for _, s := range w.Scopes {
			sm := w.Scoped(s)
			for _, a := range w.Accts[s] {
				for br := uint32(0); br < 2; br++ {
					var ma waddrmgr.ManagedAddress
					var err error
					if br == 0 {
						ma, err = sm.LastExternalAddress(ns, a.Num)
					} else {
						ma, err = sm.LastInternalAddress(ns, a.Num)
					}
					if a.Next[br] == 0 {
						continue // nothing issued: the API's answer is not asserted
					}
					if err != nil {
						d = df("c03:last-address-error", "Last address of %v/%d branch %d: %v", s, a.Num, br, err)
						return nil
					}
					e, eerr := w.Expect(a, br, a.Next[br]-1)
					if eerr != nil {
						continue
					}
					if k := w.ByStr[e.Str]; k != nil {
						e = k
					}
					if d = w.CheckManaged(ma, e, "last-address", st); d != nil {
						return nil
					}
				}
			}
		}
		return nil
	})
	return d
}
