// Package mgr drives a real waddrmgr.Manager on a real bdb file (wrapped by
// vdb) through generated operation histories and keeps, independently of the
// manager, the bookkeeping an oracle needs: which accounts exist, which
// addresses were issued at which (scope, account, branch, index), what their
// keys must be (from the BIP32 oracle), which passphrases are current.
// Shared by the monitors of C03, C04, C05, C08 and C10.
package mgr

import (
	"bytes"
	"fmt"
	"math/rand"
	"os"
	"path/filepath"
	"sort"
	"time"

	"github.com/btcsuite/btcd/btcec/v2"
	"github.com/btcsuite/btcd/btcutil"
	"github.com/btcsuite/btcd/btcutil/hdkeychain"
	"github.com/btcsuite/btcd/chaincfg"
	"github.com/btcsuite/btcd/chaincfg/chainhash"
	"github.com/btcsuite/btcwallet/snacl"
	"github.com/btcsuite/btcwallet/waddrmgr"
	"github.com/btcsuite/btcwallet/walletdb"
	_ "github.com/btcsuite/btcwallet/walletdb/bdb"

	"verif/internal/oracle"
	"verif/internal/vdb"
)

var NS = []byte("waddrmgr")

func init() {
	// The wallet-level default is scrypt N=2^18; every manager in these
	// monitors uses N=16 (the code path does not depend on the cost).
	waddrmgr.SetSecretKeyGen(func(p *[]byte, _ *waddrmgr.ScryptOptions) (*snacl.SecretKey, error) {
		return snacl.NewSecretKey(p, 16, 8, 1)
	})
}

// Acct is the harness's knowledge of one account.
type Acct struct {
	Scope   waddrmgr.KeyScope
	Num     uint32
	Name    string
	XPub    bool                      // imported extended-public-key account (watch-only)
	Key     oracle.XKey               // oracle account key (private for seed accounts, public for xpub accounts)
	AltKey  *oracle.XKey              // seed accounts >= 1 with a leading-zero coin key: the other admissible rule (O-9)
	Chosen  bool                      // AltKey resolved
	Schema  *waddrmgr.ScopeAddrSchema // override (xpub accounts)
	ChildIx uint32                    // child index of the account key (H+num for seed accounts)
	FP      uint32                    // master key fingerprint (xpub accounts)
	Next    [2]uint32                 // committed next index per branch
	HDPub   *hdkeychain.ExtendedKey
}

// Addr is the harness's knowledge of one address.
type Addr struct {
	A        btcutil.Address
	Str      string
	Scope    waddrmgr.KeyScope
	Acct     uint32
	Branch   uint32
	Index    uint32
	Kind     string // chain | imppriv | imppub | script | wscript | tscript
	Pub      []byte // expected compressed public key (pubkey kinds)
	Priv     []byte // expected private key (nil if the manager cannot have it)
	Script   []byte // imported script (script kinds)
	Secret   bool   // script stored as secret
	Type     waddrmgr.AddressType
	Used     bool
	XPubAcct bool
	Locked   bool // issued while the manager was locked
	ByExtend bool
}

// World is one manager under test plus harness bookkeeping.
// Retained is an address object handed out while the manager was locked, kept to
// be asked for its key after a later unlock.
type Retained struct {
	MA waddrmgr.ManagedAddress
	E  *Addr
}

type World struct {
	DerivedLocked []Retained // C03: objects from DeriveFromKeyPath obtained while locked
	Handles       []Handle   // C05: objects obtained and used while unlocked
	Abandoned     bool       // a goroutine is parked inside the manager: do not Close
	Neutered      bool       // the master HD root key was deleted (NeuterRootKey)
	// PrivCryptoKey is a copy of the private crypto key, taken (verif hook) while the
	// manager was unlocked; it never changes over the life of a wallet
	PrivCryptoKey []byte
	R             *rand.Rand
	Dir           string
	Path          string
	DB            *vdb.DB
	M             *waddrmgr.Manager
	Params        *chaincfg.Params
	Seed          []byte
	Root          *hdkeychain.ExtendedKey
	PubPass       []byte
	PrivPass      []byte
	OldPriv       [][]byte
	OldPub        [][]byte
	Scopes        []waddrmgr.KeyScope
	Schemas       map[waddrmgr.KeyScope]waddrmgr.ScopeAddrSchema
	Accts         map[waddrmgr.KeyScope][]*Acct
	Addrs         []*Addr
	ByStr         map[string]*Addr
	Names         []string
	Height        int32
	Hashes        map[int32]chainhash.Hash
	WatchOnly     bool
	Log           []string
	Paths         []PathRec // derivation paths derived through DeriveFromKeyPath(Cache)
	copies        int
	// Secrets / publics produced so far (C04 scanner patterns)
	OnSecret func(name string, b []byte)
	OnPublic func(name string, b []byte)
}

type PathRec struct {
	Scope waddrmgr.KeyScope
	Path  waddrmgr.DerivationPath
}

func (w *World) Logf(f string, a ...any) { w.Log = append(w.Log, fmt.Sprintf(f, a...)) }

func (w *World) secret(name string, b []byte) {
	if w.OnSecret != nil && len(b) > 0 {
		w.OnSecret(name, append([]byte(nil), b...))
	}
}
func (w *World) public(name string, b []byte) {
	if w.OnPublic != nil && len(b) > 0 {
		w.OnPublic(name, append([]byte(nil), b...))
	}
}

// NewWorld creates a manager from seed (random if nil).
func NewWorld(r *rand.Rand, dir string, seed []byte, hook func(*World)) (*World, error) {
	p := chaincfg.RegressionNetParams
	w := &World{R: r, Dir: dir, Params: &p, Accts: map[waddrmgr.KeyScope][]*Acct{}, ByStr: map[string]*Addr{},
		Schemas: map[waddrmgr.KeyScope]waddrmgr.ScopeAddrSchema{}, Hashes: map[int32]chainhash.Hash{}}
	if hook != nil {
		hook(w)
	}
	if seed == nil {
		seed = make([]byte, 32)
		r.Read(seed)
	}
	w.Seed = seed
	w.PubPass = []byte(fmt.Sprintf("public-pass-%08x", r.Uint32()))
	w.PrivPass = []byte(fmt.Sprintf("private-pass-%08x", r.Uint32()))
	w.OldPriv = append(w.OldPriv, w.PrivPass)
	w.OldPub = append(w.OldPub, w.PubPass)
	w.Path = filepath.Join(dir, fmt.Sprintf("w-%d-%d.db", os.Getpid(), r.Int63()))
	inner, err := walletdb.Create("bdb", w.Path, true, 10*time.Second, false)
	if err != nil {
		return nil, err
	}
	w.DB = vdb.New(inner)
	root, err := hdkeychain.NewMaster(seed, w.Params)
	if err != nil {
		return nil, err
	}
	w.Root = root
	w.secret("seed", seed)
	w.secret("root-xprv", []byte(root.String()))
	om := oracle.Master(seed)
	w.secret("root-key", om.Key[:])
	w.secret("root-chaincode+key", append(append([]byte{}, om.Chain[:]...), append([]byte{0}, om.Key[:]...)...))
	w.secret("pubpass", w.PubPass)
	w.secret("privpass", w.PrivPass)
	if np, err := root.Neuter(); err == nil {
		w.public("root-xpub", []byte(np.String()))
	}
	err = walletdb.Update(w.DB, func(tx walletdb.ReadWriteTx) error {
		ns, err := tx.CreateTopLevelBucket(NS)
		if err != nil {
			return err
		}
		return waddrmgr.Create(ns, root, w.PubPass, w.PrivPass, w.Params, &waddrmgr.FastScryptOptions, time.Unix(1600000000, 0))
	})
	if err != nil {
		return nil, fmt.Errorf("Create: %w", err)
	}
	// with the birthday block set (as after a wallet's first sync) the manager
	// refuses a synced-to block whose predecessor it has no hash for
	err = walletdb.Update(w.DB, func(tx walletdb.ReadWriteTx) error {
		ns := tx.ReadWriteBucket(NS)
		m, err := waddrmgr.Open(ns, w.PubPass, w.Params)
		if err != nil {
			return err
		}
		defer m.Close()
		return m.SetBirthdayBlock(ns, waddrmgr.BlockStamp{Hash: *w.Params.GenesisHash, Height: 0, Timestamp: w.Params.GenesisBlock.Header.Timestamp}, true)
	})
	if err != nil {
		return nil, fmt.Errorf("SetBirthdayBlock: %w", err)
	}
	for _, s := range waddrmgr.DefaultKeyScopes {
		if err := w.registerScope(s, waddrmgr.ScopeAddrMap[s]); err != nil {
			return nil, err
		}
	}
	w.Names = []string{"default", waddrmgr.ImportedAddrAccountName}
	if err := w.open(); err != nil {
		return nil, err
	}
	return w, nil
}

// registerScope records a scope and its account 0 with oracle keys.
func (w *World) registerScope(s waddrmgr.KeyScope, schema waddrmgr.ScopeAddrSchema) error {
	w.Scopes = append(w.Scopes, s)
	w.Schemas[s] = schema
	leg, _, _, err := oracle.AccountKey(w.Seed, s.Purpose, s.Coin, 0)
	if err != nil {
		return fmt.Errorf("oracle: unusable seed for scope %v: %w", s, err)
	}
	pk, ck, _ := oracle.CoinKey(w.Seed, s.Purpose, s.Coin)
	w.secret(fmt.Sprintf("purpose-key %v", s), pk.Key[:])
	w.secret(fmt.Sprintf("coin-key %v", s), ck.Key[:])
	w.secret(fmt.Sprintf("coin-xprv %v", s), []byte(w.XString(ck, pk.Pub, 2, oracle.H+s.Coin, true)))
	w.public(fmt.Sprintf("coin-pub %v", s), ck.Pub[:])
	w.public(fmt.Sprintf("coin-xpub %v", s), []byte(w.XString(ck, pk.Pub, 2, oracle.H+s.Coin, false)))
	a := &Acct{Scope: s, Num: 0, Name: "default", Key: leg, ChildIx: oracle.H}
	w.Accts[s] = append(w.Accts[s], a)
	w.acctSecrets(a)
	w.secret(fmt.Sprintf("acct-xprv %v/0", s), []byte(w.XString(leg, ck.Pub, 3, oracle.H, true)))
	w.public(fmt.Sprintf("acct-xpub %v/0", s), []byte(w.XString(leg, ck.Pub, 3, oracle.H, false)))
	return nil
}

// XString serialises an oracle key as a base58 extended key string of the
// network (hdkeychain is used for the encoding only, never for derivation).
func (w *World) XString(k oracle.XKey, parentPub [33]byte, depth uint8, child uint32, priv bool) string {
	fp := btcutil.Hash160(parentPub[:])[:4]
	if priv {
		return hdkeychain.NewExtendedKey(w.Params.HDPrivateKeyID[:], k.Key[:], k.Chain[:], fp, depth, child, true).String()
	}
	return hdkeychain.NewExtendedKey(w.Params.HDPublicKeyID[:], k.Pub[:], k.Chain[:], fp, depth, child, false).String()
}

func (w *World) acctSecrets(a *Acct) {
	if a.Key.Priv {
		w.secret(fmt.Sprintf("acct-key %v/%d", a.Scope, a.Num), a.Key.Key[:])
		w.secret(fmt.Sprintf("acct-chain+key %v/%d", a.Scope, a.Num), append(append([]byte{}, a.Key.Chain[:]...), append([]byte{0}, a.Key.Key[:]...)...))
	}
	w.public(fmt.Sprintf("acct-pub %v/%d", a.Scope, a.Num), a.Key.Pub[:])
	w.public(fmt.Sprintf("acct-chain+pub %v/%d", a.Scope, a.Num), append(append([]byte{}, a.Key.Chain[:]...), a.Key.Pub[:]...))
}

func (w *World) open() error {
	return walletdb.View(w.DB, func(tx walletdb.ReadTx) error {
		var err error
		w.M, err = waddrmgr.Open(tx.ReadBucket(NS), w.PubPass, w.Params)
		return err
	})
}

// PreSync advances the manager's synced-to block to height h in one database
// transaction (a wallet that has followed the chain for a while: beyond 10 000
// blocks every new block also prunes the hash kept for height-10000).
func (w *World) PreSync(h int32) error {
	err := w.Update(func(ns walletdb.ReadWriteBucket) error {
		for i := w.Height + 1; i <= h; i++ {
			var hash chainhash.Hash
			hash[0], hash[1], hash[2], hash[3], hash[31] = byte(i), byte(i>>8), byte(i>>16), 0x5c, 1
			bs := &waddrmgr.BlockStamp{Height: i, Hash: hash, Timestamp: time.Unix(int64(1600000000+int(i)*600), 0)}
			if err := w.M.SetSyncedTo(ns, bs); err != nil {
				return err
			}
		}
		return nil
	})
	if err == nil {
		w.Height = h
	}
	return err
}

// Restart closes manager and database and opens them again.
func (w *World) Restart() error {
	w.Handles = nil // objects of the manager being closed
	w.DerivedLocked = nil
	w.M.Close()
	if err := w.DB.Close(); err != nil {
		return err
	}
	inner, err := walletdb.Open("bdb", w.Path, true, 10*time.Second, false)
	if err != nil {
		return err
	}
	old := w.DB
	w.DB = vdb.New(inner)
	w.DB.Trace, w.DB.Eligible, w.DB.AfterCommit = old.Trace, old.Eligible, old.AfterCommit
	return w.open()
}

func (w *World) Close() {
	if w.M != nil {
		w.M.Close()
	}
	w.DB.Close()
	os.Remove(w.Path)
}

// Fresh opens a second manager on a copy of the database file, unlocked iff
// the running one is. The caller must call the cleanup.
func (w *World) Fresh() (walletdb.DB, *waddrmgr.Manager, func(), error) {
	w.copies++
	p := filepath.Join(w.Dir, fmt.Sprintf("copy-%d-%d-%d.db", os.Getpid(), w.R.Int63(), w.copies))
	f, err := os.Create(p)
	if err != nil {
		return nil, nil, nil, err
	}
	if err := w.DB.Copy(f); err != nil {
		f.Close()
		return nil, nil, nil, err
	}
	f.Close()
	db, err := walletdb.Open("bdb", p, true, 10*time.Second, false)
	if err != nil {
		return nil, nil, nil, err
	}
	var m *waddrmgr.Manager
	err = walletdb.View(db, func(tx walletdb.ReadTx) error {
		var err error
		m, err = waddrmgr.Open(tx.ReadBucket(NS), w.PubPass, w.Params)
		if err != nil {
			return err
		}
		if !w.M.IsLocked() && !w.M.WatchOnly() {
			return m.Unlock(tx.ReadBucket(NS), w.PrivPass)
		}
		return nil
	})
	cleanup := func() {
		if m != nil {
			m.Close()
		}
		db.Close()
		os.Remove(p)
	}
	if err != nil {
		cleanup()
		return nil, nil, nil, fmt.Errorf("opening a fresh manager on a copy of the database: %w", err)
	}
	return db, m, cleanup, nil
}

func (w *World) Update(f func(ns walletdb.ReadWriteBucket) error) error {
	return walletdb.Update(w.DB, func(tx walletdb.ReadWriteTx) error { return f(tx.ReadWriteBucket(NS)) })
}
func (w *World) View(f func(ns walletdb.ReadBucket) error) error {
	return walletdb.View(w.DB, func(tx walletdb.ReadTx) error { return f(tx.ReadBucket(NS)) })
}

func (w *World) Unlocked() bool { return !w.M.IsLocked() && !w.M.WatchOnly() }

func (w *World) Scoped(s waddrmgr.KeyScope) *waddrmgr.ScopedKeyManager {
	sm, err := w.M.FetchScopedKeyManager(s)
	if err != nil {
		panic(fmt.Sprintf("harness: scope %v missing: %v", s, err))
	}
	return sm
}

func (w *World) Acct(s waddrmgr.KeyScope, n uint32) *Acct {
	for _, a := range w.Accts[s] {
		if a.Num == n {
			return a
		}
	}
	return nil
}

func kindOf(t waddrmgr.AddressType) (oracle.AddrKind, bool) {
	switch t {
	case waddrmgr.PubKeyHash:
		return oracle.P2PKH, true
	case waddrmgr.NestedWitnessPubKey:
		return oracle.NP2WPKH, true
	case waddrmgr.WitnessPubKey:
		return oracle.P2WPKH, true
	case waddrmgr.TaprootPubKey:
		return oracle.P2TR, true
	}
	return 0, false
}

// AddrType is the address type the oracle expects for a branch of an account.
func (w *World) AddrType(a *Acct, branch uint32) waddrmgr.AddressType {
	sch := w.Schemas[a.Scope]
	if a.Schema != nil {
		sch = *a.Schema
	}
	if branch == 1 {
		return sch.InternalAddrType
	}
	return sch.ExternalAddrType
}

// Expect computes, from the oracle alone, what the address at (account,
// branch, index) must be.
func (w *World) Expect(a *Acct, branch, index uint32) (*Addr, error) {
	return w.expectWith(a, a.Key, branch, index)
}

func (w *World) expectWith(a *Acct, key oracle.XKey, branch, index uint32) (*Addr, error) {
	bk, err := key.Child(branch, false)
	if err != nil {
		return nil, err
	}
	ck, err := bk.Child(index, false)
	if err != nil {
		return nil, err
	}
	t := w.AddrType(a, branch)
	k, ok := kindOf(t)
	if !ok {
		return nil, fmt.Errorf("no oracle for address type %v", t)
	}
	addr, err := oracle.Address(ck.Pub, k, w.Params)
	if err != nil {
		return nil, err
	}
	e := &Addr{A: addr, Str: addr.String(), Scope: a.Scope, Acct: a.Num, Branch: branch, Index: index, Kind: "chain",
		Pub: ck.Pub[:], Type: t, XPubAcct: a.XPub}
	if ck.Priv {
		e.Priv = append([]byte(nil), ck.Key[:]...)
	}
	return e, nil
}

// Register adds an address to the harness bookkeeping (committed state).
func (w *World) Register(e *Addr) *Addr {
	if old, ok := w.ByStr[e.Str]; ok {
		return old
	}
	w.Addrs = append(w.Addrs, e)
	w.ByStr[e.Str] = e
	if e.Priv != nil {
		w.secret("addr-priv "+e.Str, e.Priv)
		if pk, _ := btcec.PrivKeyFromBytes(e.Priv); pk != nil {
			if wif, err := btcutil.NewWIF(pk, w.Params, true); err == nil {
				w.secret("addr-wif "+e.Str, []byte(wif.String()))
			}
		}
	}
	if e.Script != nil && e.Secret {
		w.secret("script "+e.Str, e.Script)
	}
	if e.Pub != nil {
		w.public("pubkey "+e.Str, e.Pub)
		w.public("xonly "+e.Str, e.Pub[1:])
		w.public("hash160 "+e.Str, btcutil.Hash160(e.Pub))
	}
	w.public("scriptaddr "+e.Str, e.A.ScriptAddress())
	w.public("addrstr "+e.Str, []byte(e.Str))
	return e
}

// SortedAddrs returns the known addresses in a deterministic order.
func (w *World) SortedAddrs() []*Addr {
	r := append([]*Addr(nil), w.Addrs...)
	sort.Slice(r, func(i, j int) bool { return r[i].Str < r[j].Str })
	return r
}

func errCode(err error) string {
	if err == nil {
		return ""
	}
	if me, ok := err.(*waddrmgr.ManagerError); ok {
		err = *me
	}
	if me, ok := err.(waddrmgr.ManagerError); ok {
		// the code has no entry in waddrmgr's string table ("Unknown ErrorCode (23)")
		if me.ErrorCode == waddrmgr.ErrBlockNotFound {
			return "ErrBlockNotFound"
		}
		return me.ErrorCode.String()
	}
	return "other:" + err.Error()
}

// ErrCode exposes the manager error code of err ("" for nil).
func ErrCode(err error) string { return errCode(err) }

func eq(a, b []byte) bool { return bytes.Equal(a, b) }
