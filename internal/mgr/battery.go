package mgr

import (
	"fmt"

	"github.com/btcsuite/btcd/btcutil"
	"sort"
	"strings"

	"github.com/btcsuite/btcwallet/waddrmgr"
	"github.com/btcsuite/btcwallet/walletdb"
)

// Battery asks manager m (on database db) every query of the C08 surface and
// returns the answers as strings: issued addresses and their metadata, next
// indices, account names and properties, used flags, sync state.
func (w *World) Battery(db walletdb.DB, m *waddrmgr.Manager) map[string]string {
	out := map[string]string{}
	walletdb.View(db, func(tx walletdb.ReadTx) error {
		ns := tx.ReadBucket(NS)
		for _, e := range w.Addrs {
			ma, err := m.Address(ns, e.A)
			if err != nil {
				out["addr:"+e.Str] = "ERR " + errCode(err)
				continue
			}
			s := fmt.Sprintf("acct=%d int=%v imp=%v comp=%v type=%v used=%v", ma.InternalAccount(), ma.Internal(), ma.Imported(), ma.Compressed(), ma.AddrType(), ma.Used(ns))
			if pk, ok := ma.(waddrmgr.ManagedPubKeyAddress); ok {
				sc, dp, okd := pk.DerivationInfo()
				s += fmt.Sprintf(" pub=%x der=%v/%d/%d/%d/%d/%d/%v", pk.PubKey().SerializeCompressed(), sc, dp.InternalAccount, dp.Account, dp.Branch, dp.Index, dp.MasterKeyFingerprint, okd)
			}
			sm, acct, err := m.AddrAccount(ns, e.A)
			if err == nil {
				s += fmt.Sprintf(" addracct=%v/%d", sm.Scope(), acct)
			} else {
				s += " addracct=ERR " + errCode(err)
			}
			out["addr:"+e.Str] = s
		}
		for _, sc := range w.Scopes {
			sm, err := m.FetchScopedKeyManager(sc)
			if err != nil {
				out[fmt.Sprintf("scope:%v", sc)] = "ERR " + errCode(err)
				continue
			}
			out[fmt.Sprintf("scope:%v", sc)] = fmt.Sprintf("schema=%v", sm.AddrSchema())
			for _, a := range w.Accts[sc] {
				key := fmt.Sprintf("acct:%v/%d", sc, a.Num)
				p, err := sm.AccountProperties(ns, a.Num)
				if err != nil {
					out[key] = "ERR " + errCode(err)
					continue
				}
				pub := "-"
				if p.AccountPubKey != nil {
					pub = p.AccountPubKey.String()
				}
				out[key] = fmt.Sprintf("name=%s ext=%d int=%d imp=%d pub=%v fp=%d schema=%v watchonly=%v", p.AccountName, p.ExternalKeyCount, p.InternalKeyCount, p.ImportedKeyCount, pub, p.MasterKeyFingerprint, p.AddrSchema, p.IsWatchOnly)
				n, err := sm.AccountName(ns, a.Num)
				out[key+":name"] = n + " " + errCode(err)
				for br, f := range []func(walletdb.ReadBucket, uint32) (waddrmgr.ManagedAddress, error){sm.LastExternalAddress, sm.LastInternalAddress} {
					la, err := f(ns, a.Num)
					if err == nil {
						d := la.Address().String() + fmt.Sprintf(" acct=%d int=%v imp=%v type=%v", la.InternalAccount(), la.Internal(), la.Imported(), la.AddrType())
						if pk, ok := la.(waddrmgr.ManagedPubKeyAddress); ok {
							sc, dp, okd := pk.DerivationInfo()
							d += fmt.Sprintf(" pub=%x der=%v/%d/%d/%d/%d/%d/%v", pk.PubKey().SerializeCompressed(), sc, dp.InternalAccount, dp.Account, dp.Branch, dp.Index, dp.MasterKeyFingerprint, okd)
						}
						out[fmt.Sprintf("%s:last%d", key, br)] = d
					} else {
						out[fmt.Sprintf("%s:last%d", key, br)] = "ERR " + errCode(err)
					}
				}
			}
			la, err := sm.LastAccount(ns)
			out[fmt.Sprintf("lastacct:%v", sc)] = fmt.Sprint(la, " ", errCode(err))
			var all []string
			sm.ForEachAccount(ns, func(a uint32) error { all = append(all, fmt.Sprint(a)); return nil })
			out[fmt.Sprintf("accounts:%v", sc)] = strings.Join(all, ",")
			for _, nm := range w.Names {
				a, err := sm.LookupAccount(ns, nm)
				out[fmt.Sprintf("lookup:%v/%s", sc, nm)] = fmt.Sprint(a, " ", errCode(err))
			}
			var active []string
			sm.ForEachActiveAddress(ns, func(a btcutil.Address) error { active = append(active, a.String()); return nil })
			sort.Strings(active)
			out[fmt.Sprintf("active:%v", sc)] = strings.Join(active, ",")
		}
		// manager-level scope registry
		var scopes []string
		for _, sm := range m.ActiveScopedKeyManagers() {
			scopes = append(scopes, fmt.Sprint(sm.Scope()))
		}
		sort.Strings(scopes)
		out["scopes"] = strings.Join(scopes, ",")
		for _, t := range []waddrmgr.AddressType{waddrmgr.PubKeyHash, waddrmgr.NestedWitnessPubKey, waddrmgr.WitnessPubKey, waddrmgr.TaprootPubKey} {
			var ex, in []string
			for _, sc := range m.ScopesForExternalAddrType(t) {
				ex = append(ex, fmt.Sprint(sc))
			}
			for _, sc := range m.ScopesForInternalAddrTypes(t) {
				in = append(in, fmt.Sprint(sc))
			}
			sort.Strings(ex)
			sort.Strings(in)
			out[fmt.Sprintf("scopes-by-type:%d", t)] = strings.Join(ex, ",") + " | " + strings.Join(in, ",")
		}
		nact := 0
		err := m.ForEachActiveAddress(ns, func(btcutil.Address) error { nact++; return nil })
		out["active-all"] = fmt.Sprint(nact, " ", errCode(err))
		st := m.SyncedTo()
		out["synced"] = fmt.Sprintf("%d %v %d", st.Height, st.Hash, st.Timestamp.Unix())
		for h := w.Height - 4; h <= w.Height+1; h++ {
			if h < 0 {
				continue
			}
			bh, err := m.BlockHash(ns, h)
			out[fmt.Sprintf("blockhash:%d", h)] = fmt.Sprint(bh, " ", errCode(err))
		}
		// the hash that is pruned when the tip is recorded (tip - 10000) and its neighbours
		for h := w.Height - 10001; h <= w.Height-9999; h++ {
			if h <= 0 {
				continue
			}
			bh, err := m.BlockHash(ns, h)
			out[fmt.Sprintf("blockhash:%d", h)] = fmt.Sprint(bh, " ", errCode(err))
		}
		out["watchonly"] = fmt.Sprint(m.WatchOnly())
		return nil
	})
	return out
}

// DiffBattery returns the first differing keys of two batteries.
func DiffBattery(a, b map[string]string, la, lb string) *Diff {
	var ks []string
	for k := range a {
		ks = append(ks, k)
	}
	for k := range b {
		if _, ok := a[k]; !ok {
			ks = append(ks, k)
		}
	}
	sort.Strings(ks)
	var d []string
	kind := ""
	for _, k := range ks {
		if a[k] != b[k] {
			if kind == "" {
				kind = k
				if i := strings.IndexAny(k, ":"); i > 0 {
					kind = k[:i]
				}
				if strings.HasPrefix(k, "acct:") {
					if j := strings.LastIndex(k, ":"); j > 5 {
						kind = "acct" + k[j:]
					} else {
						kind = "acct-properties"
					}
				}
			}
			d = append(d, fmt.Sprintf("%s\n      %s: %s\n      %s: %s", k, la, a[k], lb, b[k]))
			if len(d) >= 4 {
				break
			}
		}
	}
	if len(d) == 0 {
		return nil
	}
	return &Diff{kind, strings.Join(d, "\n")}
}

// RestartDiff compares the running manager with a manager freshly opened on a
// copy of the database (C08), and lets both issue one next address on scratch
// transactions that are rolled back.
func (w *World) RestartDiff(st Stats) *Diff {
	fdb, fm, cleanup, err := w.Fresh()
	if err != nil {
		return df("c08:fresh-open-failed", "%v", err)
	}
	defer cleanup()
	// the start block (where a rescan from scratch would begin) only ever moves
	// BACK, when something older than it is imported; nothing the harness imports
	// is older than genesis, where it starts
	var sb *waddrmgr.BlockStamp
	var sberr error
	w.View(func(ns walletdb.ReadBucket) error { sb, sberr = waddrmgr.FetchStartBlock(ns); return nil })
	if sberr != nil || sb == nil || sb.Height != 0 || sb.Hash != *w.Params.GenesisHash {
		return df("c08:start-block-moved-forward", "the stored start block is %+v (err %v); it was the genesis block and no import carried an older block stamp", sb, sberr)
	}
	a := w.Battery(w.DB, w.M)
	b := w.Battery(fdb, fm)
	st["c08-restart-comparisons"]++
	st["c08-queries-compared"] += len(a)
	if d := DiffBattery(a, b, "running  ", "restarted"); d != nil {
		return &Diff{"c08:running-vs-restarted:" + d.Key, "running manager and a manager freshly opened on the same database answer differently:\n" + d.What}
	}
	// the next address a committed request would issue must be the one a
	// restarted wallet would issue (both probed in rolled-back transactions
	// on the restarted twin only, so the running manager is not disturbed)
	return nil
}

// NextAddrProbe: what address would the next committed request issue? Probed
// on a *fresh twin* (so it never disturbs the running manager).
func (w *World) NextAddrProbe(s waddrmgr.KeyScope, acct uint32, branch uint32) (string, error) {
	fdb, fm, cleanup, err := w.Fresh()
	if err != nil {
		return "", err
	}
	defer cleanup()
	var got string
	err = walletdb.Update(fdb, func(tx walletdb.ReadWriteTx) error {
		sm, err := fm.FetchScopedKeyManager(s)
		if err != nil {
			return err
		}
		var as []waddrmgr.ManagedAddress
		if branch == 1 {
			as, err = sm.NextInternalAddresses(tx.ReadWriteBucket(NS), acct, 1)
		} else {
			as, err = sm.NextExternalAddresses(tx.ReadWriteBucket(NS), acct, 1)
		}
		if err != nil {
			return err
		}
		got = as[0].Address().String()
		return nil
	})
	return got, err
}
