// Package wh runs a complete wallet.Wallet on a real bdb file (wrapped by vdb)
// against the fakechain back end.
package wh

import (
	"fmt"
	"math/rand"
	"os"
	"path/filepath"
	"sync/atomic"
	"time"

	"github.com/btcsuite/btcd/btcutil"
	"github.com/btcsuite/btcd/btcutil/hdkeychain"
	"github.com/btcsuite/btcd/chaincfg"
	"github.com/btcsuite/btcd/chaincfg/chainhash"
	"github.com/btcsuite/btcd/txscript"
	"github.com/btcsuite/btcd/wire"
	"github.com/btcsuite/btcwallet/chain"
	"github.com/btcsuite/btcwallet/snacl"
	"github.com/btcsuite/btcwallet/waddrmgr"
	"github.com/btcsuite/btcwallet/wallet"
	"github.com/btcsuite/btcwallet/walletdb"
	_ "github.com/btcsuite/btcwallet/walletdb/bdb"

	"verif/internal/fakechain"
	"verif/internal/vdb"
)

func init() {
	waddrmgr.SetSecretKeyGen(func(p *[]byte, _ *waddrmgr.ScryptOptions) (*snacl.SecretKey, error) {
		return snacl.NewSecretKey(p, 16, 8, 1)
	})
}

var (
	AddrNS = []byte("waddrmgr")
	TxNS   = []byte("wtxmgr")
)

type H struct {
	Dir       string
	Path      string
	Params    *chaincfg.Params
	Seed      []byte
	Root      *hdkeychain.ExtendedKey
	Chain     *fakechain.Chain
	Inner     walletdb.DB
	DB        *vdb.DB
	W         *wallet.Wallet
	PubPass   []byte
	PrivPass  []byte
	R         *rand.Rand
	n         int
	abandoned int32
}

// Params returns regtest parameters with a short coinbase maturity.
func Params(maturity uint16) *chaincfg.Params {
	p := chaincfg.RegressionNetParams
	p.CoinbaseMaturity = maturity
	return &p
}

// New creates chain (with preBlocks blocks) and wallet database. birthday is
// the wallet creation time handed to wallet.Create.
func New(r *rand.Rand, dir string, params *chaincfg.Params, seed []byte, ch *fakechain.Chain, birthday time.Time) (*H, error) {
	h := &H{Dir: dir, Params: params, R: r, Chain: ch, PubPass: []byte("pub"), PrivPass: []byte("priv")}
	if seed == nil {
		seed = make([]byte, 32)
		r.Read(seed)
	}
	h.Seed = seed
	root, err := hdkeychain.NewMaster(seed, params)
	if err != nil {
		return nil, err
	}
	h.Root = root
	h.Path = filepath.Join(dir, fmt.Sprintf("wallet-%d-%d.db", os.Getpid(), r.Int63()))
	inner, err := walletdb.Create("bdb", h.Path, true, 10*time.Second, false)
	if err != nil {
		return nil, err
	}
	h.Inner = inner
	h.DB = vdb.New(inner)
	if err := wallet.Create(h.DB, h.PubPass, h.PrivPass, root, params, birthday); err != nil {
		inner.Close()
		return nil, fmt.Errorf("wallet.Create: %w", err)
	}
	return h, nil
}

// Open opens the wallet, connects it to the chain and waits for the initial
// sync to finish.
func (h *H) Open(recoveryWindow uint32, unlock bool) error {
	w, err := wallet.OpenWithRetry(h.DB, h.PubPass, nil, h.Params, recoveryWindow, 5*time.Millisecond)
	if err != nil {
		return fmt.Errorf("wallet.Open: %w", err)
	}
	h.W = w
	w.Start()
	if unlock {
		if err := w.Unlock(h.PrivPass, nil); err != nil {
			return fmt.Errorf("unlock: %w", err)
		}
	}
	w.SynchronizeRPC(h.Chain)
	h.Chain.Send(chain.ClientConnected{})
	return h.WaitSynced()
}

// OpenOffline opens and starts the wallet WITHOUT attaching a chain backend
// (the state of a daemon whose backend connection is down).
func (h *H) OpenOffline(unlock bool) error {
	w, err := wallet.OpenWithRetry(h.DB, h.PubPass, nil, h.Params, 0, 5*time.Millisecond)
	if err != nil {
		return fmt.Errorf("wallet.Open: %w", err)
	}
	h.W = w
	w.Start()
	if unlock {
		if err := w.Unlock(h.PrivPass, nil); err != nil {
			return fmt.Errorf("unlock: %w", err)
		}
	}
	return nil
}

// ErrNotSynced is returned when the wallet did not report ChainSynced in time
// (a watchdog: inconclusive, never a verdict).
var ErrNotSynced = fmt.Errorf("wallet did not reach ChainSynced within the watchdog")

func (h *H) WaitSynced() error {
	w := h.W
	h.Chain.Barrier()
	for i := 0; i < 60000 && !w.ChainSynced() && atomic.LoadInt32(&h.abandoned) == 0; i++ {
		time.Sleep(time.Millisecond)
	}
	if !w.ChainSynced() {
		return ErrNotSynced
	}
	h.Chain.Barrier()
	return nil
}

// Stop stops the wallet (the database stays open).
func (h *H) Stop() {
	if h.W == nil {
		return
	}
	h.Chain.Shutdown()
	h.W.Stop()
	h.W.WaitForShutdown()
	h.W = nil
	h.Chain.NewSession()
}

// Abandon is called once a verdict about a wallet that never finishes
// synchronising has been reached: pending waits return, and Close no longer
// waits for the wallet's goroutines (they may be stuck in the very retry loop
// that was reported).
func (h *H) Abandon() {
	atomic.StoreInt32(&h.abandoned, 1)
	h.Chain.Shutdown()
}

func (h *H) Close() {
	if atomic.LoadInt32(&h.abandoned) == 1 {
		w := h.W
		if w != nil {
			done := make(chan struct{})
			go func() { w.Stop(); w.WaitForShutdown(); close(done) }()
			select {
			case <-done:
				h.Inner.Close()
				os.Remove(h.Path)
			case <-time.After(2 * time.Second):
				// leave the database open: the stuck goroutines still use it
			}
			return
		}
	}
	h.Stop()
	h.Inner.Close()
	os.Remove(h.Path)
}

// PayTo builds a transaction paying amt to addr from an outpoint nobody knows.
func (h *H) PayTo(addr btcutil.Address, amt int64) *wire.MsgTx {
	h.n++
	pk, _ := txscript.PayToAddrScript(addr)
	tx := wire.NewMsgTx(2)
	var hh chainhash.Hash
	h.R.Read(hh[:])
	hh[0] = 0xcc
	tx.AddTxIn(wire.NewTxIn(&wire.OutPoint{Hash: hh, Index: uint32(h.n)}, nil, nil))
	tx.AddTxOut(wire.NewTxOut(amt, pk))
	return tx
}

// CoinbaseTo builds a coinbase transaction paying amt to addr.
func (h *H) CoinbaseTo(addr btcutil.Address, amt int64) *wire.MsgTx {
	h.n++
	pk, _ := txscript.PayToAddrScript(addr)
	tx := wire.NewMsgTx(1)
	tx.AddTxIn(wire.NewTxIn(&wire.OutPoint{Index: 0xffffffff}, []byte{byte(h.n), byte(h.n >> 8), 9, 9, byte(h.R.Intn(256))}, nil))
	tx.AddTxOut(wire.NewTxOut(amt, pk))
	return tx
}

func (h *H) ViewAddr(f func(ns walletdb.ReadBucket) error) error {
	return walletdb.View(h.DB, func(tx walletdb.ReadTx) error { return f(tx.ReadBucket(AddrNS)) })
}
func (h *H) ViewTx(f func(ns walletdb.ReadBucket) error) error {
	return walletdb.View(h.DB, func(tx walletdb.ReadTx) error { return f(tx.ReadBucket(TxNS)) })
}
