package wh

import (
	"fmt"
	"github.com/btcsuite/btcd/btcec/v2"
	"math/rand"
	"sort"
	"time"

	"github.com/btcsuite/btcd/btcutil"
	"github.com/btcsuite/btcd/chaincfg/chainhash"
	"github.com/btcsuite/btcd/txscript"
	"github.com/btcsuite/btcd/wire"
	"github.com/btcsuite/btcwallet/waddrmgr"
	"github.com/btcsuite/btcwallet/walletdb"
	"github.com/btcsuite/btcwallet/wtxmgr"

	"verif/internal/fakechain"
)

// Coin is the harness ledger's knowledge of one wallet output. The harness
// knows it because it delivered the receipt itself (or saw the wallet publish
// the transaction creating it).
type Coin struct {
	Op       wire.OutPoint
	Out      *wire.TxOut
	Scope    waddrmgr.KeyScope
	Acct     uint32
	Height   int32 // -1 unconfirmed
	Coinbase bool
	SpentBy  string // "", "unconf", "conf"
	Locked   bool
	Leased   bool
	Change   bool
}

// Funded is a synced, unlocked wallet with a ledger of its coins.
type Funded struct {
	SmallRate int64 // sat/vB the aimed coins of FundSmall were made for
	*H
	Coins  map[wire.OutPoint]*Coin
	Acct1  uint32
	Window uint32 // recovery window this wallet is (re)opened with
	// ImportedKeys: address (as the wallet encodes it) -> the private key imported for it
	ImportedKeys map[string]*btcec.PrivateKey
	Maturity     int32
	Pending      []*wire.MsgTx // published by the wallet, not yet mined
}

var FundScopes = []waddrmgr.KeyScope{waddrmgr.KeyScopeBIP0084, waddrmgr.KeyScopeBIP0049Plus, waddrmgr.KeyScopeBIP0086, waddrmgr.KeyScopeBIP0044}

// NewFunded creates a wallet and funds it on every address type and two
// accounts through confirmed, unconfirmed, coinbase (immature by 0/1/many
// blocks) and reorged-out receipts.
func NewFunded(rg *rand.Rand, dir string, wrapDB bool, rounds int) (*Funded, error) {
	const maturity = 5
	params := Params(maturity)
	ch := fakechain.New(params)
	ch.Style = rg.Intn(2)
	for i := 0; i < 3; i++ {
		ch.Extend()
	}
	h, err := New(rg, dir, params, nil, ch, ch.BlockAt(1).Header.Timestamp)
	if err != nil {
		return nil, err
	}
	// the daemon always opens its wallet with a recovery window of 250: a third of
	// the funded wallets do the same (every start then runs the recovery first)
	window := []uint32{0, 0, 250}[rg.Intn(3)]
	if err := h.Open(window, true); err != nil {
		h.Close()
		return nil, err
	}
	f := &Funded{H: h, Coins: map[wire.OutPoint]*Coin{}, Maturity: maturity, Window: window}
	f.Acct1, err = h.W.NextAccount(waddrmgr.KeyScopeBIP0084, "second")
	if err != nil {
		h.Close()
		return nil, fmt.Errorf("NextAccount: %w", err)
	}
	for b := 0; b < rounds; b++ {
		var txs []*wire.MsgTx
		var cs []*Coin
		for i := 0; i < 1+rg.Intn(3); i++ {
			tx, c, err := f.receipt(rg, false)
			if err != nil {
				h.Close()
				return nil, err
			}
			txs = append(txs, tx)
			cs = append(cs, c)
		}
		if rg.Intn(3) == 0 {
			cb, c, err := f.receipt(rg, true)
			if err != nil {
				h.Close()
				return nil, err
			}
			ch.ExtendWithCoinbase(cb, txs...)
			cs = append(cs, c)
		} else {
			ch.Extend(txs...)
		}
		ht := ch.Height()
		ch.NotifyConnect(int(ht))
		for _, c := range cs {
			c.Height = ht
			f.Coins[c.Op] = c
		}
	}
	// a receipt that is reorged out again and stays unconfirmed
	if rg.Intn(2) == 0 {
		tx, c, err := f.receipt(rg, false)
		if err == nil {
			ch.Extend(tx)
			ch.NotifyConnect(int(ch.Height()))
			f.Coins[c.Op] = c
			ch.Reorg(1, 1, nil) // replaced by an empty block: the receipt is unconfirmed again
			c.Height = -1
		}
	}
	// unconfirmed receipts
	for i := 0; i < 1+rg.Intn(3); i++ {
		tx, c, err := f.receipt(rg, false)
		if err != nil {
			continue
		}
		ch.NotifyTx(tx, time.Unix(1700000000, 0))
		f.Coins[c.Op] = c
	}
	ch.Barrier()
	return f, nil
}

func (f *Funded) receipt(rg *rand.Rand, coinbase bool) (*wire.MsgTx, *Coin, error) {
	sc := FundScopes[rg.Intn(len(FundScopes))]
	acct := uint32(0)
	if sc == waddrmgr.KeyScopeBIP0084 && rg.Intn(2) == 0 {
		acct = f.Acct1
	}
	a, err := f.W.NewAddress(acct, sc)
	if err != nil {
		return nil, nil, fmt.Errorf("NewAddress: %w", err)
	}
	amt := int64(50000 + rg.Intn(500000))
	var tx *wire.MsgTx
	if coinbase {
		tx = f.CoinbaseTo(a, amt)
	} else {
		tx = f.PayTo(a, amt)
	}
	c := &Coin{Op: wire.OutPoint{Hash: tx.TxHash(), Index: 0}, Out: tx.TxOut[0], Scope: sc, Acct: acct, Height: -1, Coinbase: coinbase}
	return tx, c, nil
}

// FundImportedKey imports a fresh private key into the given scope (imported-keys
// account) and pays it n confirmed coins.
func (f *Funded) FundImportedKey(rg *rand.Rand, sc waddrmgr.KeyScope, n int) error {
	kb := make([]byte, 32)
	rg.Read(kb)
	kb[0] |= 1
	priv, _ := btcec.PrivKeyFromBytes(kb)
	wif, err := btcutil.NewWIF(priv, f.Params, true)
	if err != nil {
		return err
	}
	st := f.W.Manager.SyncedTo()
	bs := &st // not older than what the wallet has seen: no birthday change
	addrStr, err := f.W.ImportPrivateKey(sc, wif, bs, false)
	if err != nil {
		return fmt.Errorf("ImportPrivateKey: %w", err)
	}
	if f.ImportedKeys == nil {
		f.ImportedKeys = map[string]*btcec.PrivateKey{}
	}
	f.ImportedKeys[addrStr] = priv
	a, err := btcutil.DecodeAddress(addrStr, f.Params)
	if err != nil {
		return err
	}
	f.Chain.Barrier()
	var txs []*wire.MsgTx
	for i := 0; i < n; i++ {
		tx := f.PayTo(a, int64(60000+rg.Intn(300000)))
		txs = append(txs, tx)
		f.Coins[wire.OutPoint{Hash: tx.TxHash(), Index: 0}] = &Coin{Op: wire.OutPoint{Hash: tx.TxHash(), Index: 0}, Out: tx.TxOut[0], Scope: sc, Acct: waddrmgr.ImportedAddrAccount, Height: -1}
	}
	f.Chain.Extend(txs...)
	ht := f.Chain.Height()
	f.Chain.NotifyConnect(int(ht))
	for _, tx := range txs {
		f.Coins[wire.OutPoint{Hash: tx.TxHash(), Index: 0}].Height = ht
	}
	f.Chain.Barrier()
	return nil
}

// FundSmall pays n small confirmed coins (1 500..9 000 sat: around what an input
// costs at 20..100 sat/vB) to fresh account-0 addresses of random scopes.
func (f *Funded) FundSmall(rg *rand.Rand, n int) error {
	var txs []*wire.MsgTx
	var cs []*Coin
	// besides random ones: for a fee rate of SmallRate sat/vB, a legacy coin worth a
	// little LESS than its own input (141 x rate against 149 x rate) and a smaller
	// taproot coin worth clearly MORE than its own (103 x rate against 58 x rate)
	f.SmallRate = []int64{20, 50, 100}[rg.Intn(3)]
	aimed := []struct {
		sc  waddrmgr.KeyScope
		val int64
	}{{waddrmgr.KeyScopeBIP0044, 141 * f.SmallRate}, {waddrmgr.KeyScopeBIP0086, 103*f.SmallRate + int64(rg.Intn(50))}}
	for i := 0; i < n+len(aimed); i++ {
		sc := FundScopes[rg.Intn(len(FundScopes))]
		val := int64(1500 + rg.Intn(7500))
		if i >= n {
			sc, val = aimed[i-n].sc, aimed[i-n].val
		}
		a, err := f.W.NewAddress(0, sc)
		if err != nil {
			return fmt.Errorf("NewAddress: %w", err)
		}
		tx := f.PayTo(a, val)
		txs = append(txs, tx)
		cs = append(cs, &Coin{Op: wire.OutPoint{Hash: tx.TxHash(), Index: 0}, Out: tx.TxOut[0], Scope: sc, Acct: 0, Height: -1})
	}
	f.Chain.Barrier()
	f.Chain.Extend(txs...)
	ht := f.Chain.Height()
	f.Chain.NotifyConnect(int(ht))
	for _, c := range cs {
		c.Height = ht
		f.Coins[c.Op] = c
	}
	f.Chain.Barrier()
	return nil
}

func (f *Funded) Tip() int32 { return f.Chain.Height() }

func (c *Coin) Confs(tip int32) int32 {
	if c.Height == -1 || c.Height > tip {
		return 0
	}
	return tip - c.Height + 1
}

// Ineligible says why the ledger does not allow spending c for a request, or "".
func (f *Funded) Ineligible(c *Coin, scope *waddrmgr.KeyScope, acct uint32, minconf int32) string {
	tip := f.Tip()
	switch {
	case c.Acct != acct:
		return "wrong account"
	case scope != nil && c.Scope != *scope:
		return "wrong key scope"
	case c.SpentBy != "":
		return "already spent (" + c.SpentBy + ")"
	case c.Locked:
		return "locked"
	case c.Leased:
		return "leased"
	case c.Confs(tip) < minconf:
		return fmt.Sprintf("%d confirmations < minconf %d", c.Confs(tip), minconf)
	case c.Coinbase && c.Confs(tip) < f.Maturity:
		return fmt.Sprintf("immature coinbase (%d confirmations)", c.Confs(tip))
	}
	return ""
}

// SortedCoins returns the ledger's coins in a deterministic order.
func (f *Funded) SortedCoins() []*Coin {
	var r []*Coin
	for _, c := range f.Coins {
		r = append(r, c)
	}
	sort.Slice(r, func(i, j int) bool { return r[i].Op.String() < r[j].Op.String() })
	return r
}

// VerifyScripts executes every input of tx in a fresh script engine with
// standard verification flags, using prevouts from the HARNESS ledger.
func (f *Funded) VerifyScripts(tx *wire.MsgTx) error {
	fetcher := txscript.NewMultiPrevOutFetcher(nil)
	for _, in := range tx.TxIn {
		c, ok := f.Coins[in.PreviousOutPoint]
		if !ok {
			return fmt.Errorf("input %v is not a wallet coin of the ledger", in.PreviousOutPoint)
		}
		fetcher.AddPrevOut(in.PreviousOutPoint, c.Out)
	}
	hc := txscript.NewTxSigHashes(tx, fetcher)
	for i, in := range tx.TxIn {
		c := f.Coins[in.PreviousOutPoint]
		vm, err := txscript.NewEngine(c.Out.PkScript, tx, i, txscript.StandardVerifyFlags, nil, hc, c.Out.Value, fetcher)
		if err == nil {
			err = vm.Execute()
		}
		if err != nil {
			return fmt.Errorf("input %d (%v, scope %v): %w", i, in.PreviousOutPoint, c.Scope, err)
		}
	}
	return nil
}

// ApplyPublished updates the ledger for a transaction the wallet published:
// its inputs are spent (unconfirmed), outputs paying wallet addresses become coins.
func (f *Funded) ApplyPublished(tx *wire.MsgTx) error {
	for _, in := range tx.TxIn {
		if c, ok := f.Coins[in.PreviousOutPoint]; ok {
			c.SpentBy = "unconf"
		}
	}
	for i, o := range tx.TxOut {
		_, addrs, _, err := txscript.ExtractPkScriptAddrs(o.PkScript, f.Params)
		if err != nil || len(addrs) != 1 {
			continue
		}
		var mgr *waddrmgr.ScopedKeyManager
		var ac uint32
		err = walletdb.View(f.DB, func(dbtx walletdb.ReadTx) error {
			var e error
			mgr, ac, e = f.W.Manager.AddrAccount(dbtx.ReadBucket(AddrNS), addrs[0])
			return e
		})
		if err != nil {
			continue // not ours
		}
		op := wire.OutPoint{Hash: tx.TxHash(), Index: uint32(i)}
		f.Coins[op] = &Coin{Op: op, Out: o, Scope: mgr.Scope(), Acct: ac, Height: -1, Change: true}
	}
	f.Pending = append(f.Pending, tx)
	return nil
}

// Forget undoes ApplyPublished (the broadcast failed and must leave no trace).
func (f *Funded) Forget(tx *wire.MsgTx) {
	for _, in := range tx.TxIn {
		if c, ok := f.Coins[in.PreviousOutPoint]; ok && c.SpentBy == "unconf" {
			c.SpentBy = ""
		}
	}
	h := tx.TxHash()
	for op := range f.Coins {
		if op.Hash == h {
			delete(f.Coins, op)
		}
	}
	for i, p := range f.Pending {
		if p.TxHash() == h {
			f.Pending = append(f.Pending[:i], f.Pending[i+1:]...)
			break
		}
	}
}

// MinePending puts the wallet's pending transactions (parents first as
// published) into a new block and delivers it.
func (f *Funded) MinePending(extra ...*wire.MsgTx) {
	// unconfirmed receipts (harness payments still in the mempool) are
	// mined first: a block never confirms a child before its parent
	pend := map[chainhash.Hash]bool{}
	for _, tx := range f.Pending {
		pend[tx.TxHash()] = true
	}
	var txs []*wire.MsgTx
	var hs []chainhash.Hash
	mp := f.Chain.MempoolTxs()
	for h := range mp {
		hs = append(hs, h)
	}
	sort.Slice(hs, func(i, j int) bool { return hs[i].String() < hs[j].String() })
	for _, h := range hs {
		if !pend[h] {
			if c, ok := f.Coins[wire.OutPoint{Hash: h, Index: 0}]; ok && !c.Change {
				txs = append(txs, mp[h])
			}
		}
	}
	txs = append(append(txs, f.Pending...), extra...)
	// parents first: a block never confirms a child before its parent
	inSet := map[chainhash.Hash]*wire.MsgTx{}
	for _, t := range txs {
		inSet[t.TxHash()] = t
	}
	var ordered []*wire.MsgTx
	done := map[chainhash.Hash]bool{}
	var visit func(t *wire.MsgTx)
	visit = func(t *wire.MsgTx) {
		h := t.TxHash()
		if done[h] {
			return
		}
		done[h] = true
		for _, in := range t.TxIn {
			if p, ok := inSet[in.PreviousOutPoint.Hash]; ok {
				visit(p)
			}
		}
		ordered = append(ordered, t)
	}
	for _, t := range txs {
		visit(t)
	}
	txs = ordered
	f.Chain.Extend(txs...)
	ht := f.Chain.Height()
	f.Chain.NotifyConnect(int(ht))
	for _, tx := range txs {
		if pend[tx.TxHash()] {
			continue
		}
		if c, ok := f.Coins[wire.OutPoint{Hash: tx.TxHash(), Index: 0}]; ok {
			c.Height = ht
		}
		for _, in := range tx.TxIn {
			if c, ok := f.Coins[in.PreviousOutPoint]; ok {
				c.SpentBy = "conf"
			}
		}
	}
	for _, tx := range f.Pending {
		h := tx.TxHash()
		for _, in := range tx.TxIn {
			if c, ok := f.Coins[in.PreviousOutPoint]; ok {
				c.SpentBy = "conf"
			}
		}
		for op, c := range f.Coins {
			if op.Hash == h {
				c.Height = ht
			}
		}
	}
	f.Pending = nil
	f.Chain.Barrier()
}

// Snapshot is the wallet's observable money state (C20).
func (f *Funded) Snapshot() string {
	b0, _ := f.W.CalculateBalance(0)
	b1, _ := f.W.CalculateBalance(1)
	us, _ := f.W.ListUnspent(0, 1<<30, "")
	var l []string
	for _, u := range us {
		l = append(l, fmt.Sprintf("%s:%d=%v", u.TxID[:10], u.Vout, u.Amount))
	}
	sort.Strings(l)
	var um, ls []string
	walletdb.View(f.DB, func(tx walletdb.ReadTx) error {
		ns := tx.ReadBucket(TxNS)
		hs, _ := f.W.TxStore.UnminedTxHashes(ns)
		for _, h := range hs {
			um = append(um, h.String()[:10])
		}
		ll, _ := f.W.TxStore.ListLockedOutputs(ns)
		for _, l := range ll {
			ls = append(ls, l.Outpoint.String()[:14])
		}
		return nil
	})
	sort.Strings(um)
	sort.Strings(ls)
	return fmt.Sprintf("bal0=%v bal1=%v unspent=%v unmined=%v leases=%v", b0, b1, l, um, ls)
}

var _ = btcutil.Amount(0)
var _ = wtxmgr.LockID{}
