module verif

go 1.22

require (
	github.com/anishathalye/porcupine v1.3.0
	github.com/btcsuite/btcd v0.24.3-0.20250318170759-4f4ea81776d6
	github.com/btcsuite/btcd/btcec/v2 v2.3.4
	github.com/btcsuite/btcd/btcutil v1.1.5
	github.com/btcsuite/btcd/btcutil/psbt v1.1.8
	github.com/btcsuite/btcd/chaincfg/chainhash v1.1.0
	github.com/btcsuite/btclog v0.0.0-20170628155309-84c8d2346e9f
	github.com/btcsuite/btcwallet v0.16.13
	github.com/btcsuite/btcwallet/wallet/txauthor v1.3.5
	github.com/btcsuite/btcwallet/wallet/txrules v1.2.2
	github.com/btcsuite/btcwallet/wallet/txsizes v1.2.5
	github.com/btcsuite/btcwallet/walletdb v1.5.1
	github.com/btcsuite/btcwallet/wtxmgr v1.5.6
	github.com/lightninglabs/neutrino v0.16.0
	github.com/lightningnetwork/lnd/clock v1.0.1
	golang.org/x/crypto v0.22.0
)

require (
	github.com/aead/siphash v1.0.1 // indirect
	github.com/btcsuite/go-socks v0.0.0-20170105172521-4720035b7bfd // indirect
	github.com/btcsuite/websocket v0.0.0-20150119174127-31079b680792 // indirect
	github.com/davecgh/go-spew v1.1.1 // indirect
	github.com/decred/dcrd/crypto/blake256 v1.0.1 // indirect
	github.com/decred/dcrd/dcrec/secp256k1/v4 v4.3.0 // indirect
	github.com/decred/dcrd/lru v1.1.2 // indirect
	github.com/kkdai/bstream v1.0.0 // indirect
	github.com/lightninglabs/gozmq v0.0.0-20191113021534-d20a764486bf // indirect
	github.com/lightninglabs/neutrino/cache v1.1.2 // indirect
	github.com/lightningnetwork/lnd/queue v1.0.1 // indirect
	github.com/lightningnetwork/lnd/ticker v1.0.0 // indirect
	github.com/lightningnetwork/lnd/tlv v1.0.2 // indirect
	github.com/pmezard/go-difflib v1.0.0 // indirect
	github.com/stretchr/objx v0.5.2 // indirect
	github.com/stretchr/testify v1.9.0 // indirect
	go.etcd.io/bbolt v1.3.11 // indirect
	golang.org/x/sys v0.19.0 // indirect
	golang.org/x/term v0.19.0 // indirect
	gopkg.in/yaml.v3 v3.0.1 // indirect
)

replace github.com/btcsuite/btcwallet => /repo

replace github.com/btcsuite/btcwallet/wallet/txauthor => /repo/wallet/txauthor

replace github.com/btcsuite/btcwallet/wallet/txrules => /repo/wallet/txrules

replace github.com/btcsuite/btcwallet/wallet/txsizes => /repo/wallet/txsizes

replace github.com/btcsuite/btcwallet/walletdb => /repo/walletdb

replace github.com/btcsuite/btcwallet/wtxmgr => /repo/wtxmgr
