// C16 — recovery from seed finds every used address within the look-ahead window.
package main

import (
	"errors"
	"fmt"
	"math/rand"
	"os"
	"sort"
	"strings"
	"sync"
	"sync/atomic"
	"time"

	"github.com/btcsuite/btclog"

	"github.com/btcsuite/btcd/btcutil"
	"github.com/btcsuite/btcd/chaincfg/chainhash"
	"github.com/btcsuite/btcd/txscript"
	"github.com/btcsuite/btcd/wire"
	"github.com/btcsuite/btcwallet/waddrmgr"
	"github.com/btcsuite/btcwallet/wallet"
	"github.com/btcsuite/btcwallet/walletdb"

	"verif/internal/evid"
	"verif/internal/fakechain"
	"verif/internal/oracle"
	"verif/internal/wh"
)

const P = "C16"

type br struct {
	scope  waddrmgr.KeyScope
	branch uint32
}

// customScope is a non-default key scope some wallets register before they are
// recovered (recovery attempts every registered scope).
var customScope = waddrmgr.KeyScope{Purpose: 1017, Coin: 1}

var kinds = map[waddrmgr.KeyScope][2]oracle.AddrKind{
	customScope:                  {oracle.P2WPKH, oracle.P2WPKH},
	waddrmgr.KeyScopeBIP0044:     {oracle.P2PKH, oracle.P2PKH},
	waddrmgr.KeyScopeBIP0049Plus: {oracle.NP2WPKH, oracle.P2WPKH},
	waddrmgr.KeyScopeBIP0084:     {oracle.P2WPKH, oracle.P2WPKH},
	waddrmgr.KeyScopeBIP0086:     {oracle.P2TR, oracle.P2TR},
}

type world struct {
	seed  []byte
	accts map[waddrmgr.KeyScope]oracle.XKey
	bkeys map[br]oracle.XKey
}

func (w *world) addr(b br, idx uint32, p *fakechain.Chain) (btcutil.Address, error) {
	bk, ok := w.bkeys[b]
	if !ok {
		ak := w.accts[b.scope]
		var err error
		bk, err = ak.Child(b.branch, false)
		if err != nil {
			return nil, err
		}
		w.bkeys[b] = bk
	}
	ck, err := bk.Child(idx, false)
	if err != nil {
		return nil, err
	}
	return oracle.Address(ck.Pub, kinds[b.scope][b.branch], p.Params)
}

type caseCfg struct {
	W         uint32
	blocks    int
	spacing   time.Duration
	unlocked  bool
	failAt    int  // FilterBlocks call that fails (0 = none)
	restartOn bool // stop + reopen after the injected failure
	boundary  bool // long chain: payments placed at recovery batch boundaries
	creation  int  // height whose timestamp is the creation time
	custom    bool // a custom key scope (m/1017'/1') is registered before the recovery and paid to
	resume    bool // long chain; the first FilterBlocks call of the SECOND batch fails: the retry resumes from persisted state
}

func runCase(r *evid.Run, dir string, cs int64, idx int) {
	rg := rand.New(rand.NewSource(cs))
	c := caseCfg{W: []uint32{1, 2, 3, 5, 20}[rg.Intn(5)], blocks: 25 + rg.Intn(r.N(60, 380)), unlocked: rg.Intn(2) == 0,
		spacing: []time.Duration{10 * time.Minute, 2 * time.Hour, 6 * time.Hour}[rg.Intn(3)]}
	if rg.Intn(3) == 0 {
		c.failAt = 1 + rg.Intn(6)
		c.restartOn = rg.Intn(2) == 0
	}
	// every fifth short case registers a custom key scope first; those cases are
	// always interrupted (a failed batch must not leave the custom scope's
	// in-memory indices ahead of the database)
	if idx%5 == 4 {
		c.custom = true
		if c.failAt == 0 {
			c.failAt = 1 + idx/5%6
		}
	}
	if idx == 1 || idx == 2 || (!r.Quick() && rg.Intn(25) == 0) {
		c.resume = true
		c.restartOn = idx == 2 || (idx > 2 && rg.Intn(2) == 0)
		c.failAt = 0
	}
	if idx == 0 || c.resume || (!r.Quick() && rg.Intn(25) == 0) {
		c.boundary = true
		c.blocks = 2050 + rg.Intn(200)
		if !r.Quick() && rg.Intn(2) == 0 {
			c.blocks = 4100 + rg.Intn(300)
		}
		c.spacing = 10 * time.Minute
	}
	c.creation = 1 + rg.Intn(c.blocks/3+1)
	if rg.Intn(6) == 0 {
		c.creation = 0 // creation time before the first block
	}
	if c.boundary {
		// the second batch must exist: birthday close to the start of the chain
		// (the batch boundary lies ~2000 blocks above the birthday block)
		c.creation = 300 + rg.Intn(40)
		if c.blocks < 4000 {
			c.blocks = 2400 + rg.Intn(300)
		}
		if !c.resume && idx == 0 {
			// uninterrupted: the watched-outpoint set lives in memory only
			c.failAt, c.restartOn = 0, false
		}
	}
	params := wh.Params(5)
	ch := fakechain.New(params)
	ch.Spacing = c.spacing
	seed := make([]byte, 32)
	rg.Read(seed)
	wd := &world{seed: seed, accts: map[waddrmgr.KeyScope]oracle.XKey{}, bkeys: map[br]oracle.XKey{}}
	scopes := append([]waddrmgr.KeyScope{}, waddrmgr.DefaultKeyScopes...)
	if c.custom {
		scopes = append(scopes, customScope, customScope) // paid twice as often: it is the point of these cases
	}
	for _, s := range scopes {
		leg, _, _, err := oracle.AccountKey(seed, s.Purpose, s.Coin, 0)
		if err != nil {
			return // unusable seed (p ~ 2^-127)
		}
		wd.accts[s] = leg
	}
	next := map[br]uint32{} // (highest index paid in EARLIER blocks) + 1
	highest := map[br]int{} // highest used index
	utxo := map[wire.OutPoint]btcutil.Amount{}
	usedAddrs := map[string]btcutil.Address{}
	txWhat := map[chainhash.Hash]string{} // what each generated transaction is, for reports
	notCredited := map[string]bool{}      // custom-scope addresses: known after recovery, never credited or marked used
	txAt := map[chainhash.Hash]int32{}    // every tx paying to / spending from the wallet -> height
	payHeights := map[int32]bool{}        // heights with at least one payment to the wallet
	var plog []string
	n := 0
	// pre-creation blocks carry no wallet payments ("no earlier block could pay the wallet")
	payProb := 2
	if c.boundary {
		payProb = 40
	}
	type bop struct {
		op    wire.OutPoint
		after int
	}
	var boundaryOps []bop
	reserved := map[wire.OutPoint]bool{} // only ever spent by the forced change-less spend
	favScope, favBranch := waddrmgr.DefaultKeyScopes[rg.Intn(4)], uint32(rg.Intn(2))
	_ = scopes
	var firstBatchLast int // filled after the wallet's birthday is known; boundary placement uses an estimate
	for h := 1; h <= c.blocks; h++ {
		var txs []*wire.MsgTx
		foundThis := map[br]uint32{}
		pays := 0
		nearBoundary := false
		if h >= c.creation && h > 0 && rg.Intn(payProb) == 0 {
			pays = 1 + rg.Intn(3)
		}
		// long chains: force payments into the blocks around multiples of the
		// recovery batch size counted from the (estimated) birthday block
		if c.boundary {
			est := c.creation - int(48*time.Hour/c.spacing)
			if est < 0 {
				est = 0
			}
			for _, k := range []int{2000, 4000} {
				for d := -14; d <= 14; d++ {
					if h == est+k+d && h >= c.creation {
						pays = 1
						nearBoundary = true
					}
				}
			}
			firstBatchLast = est + 2000
		}
		for i := 0; i < pays; i++ {
			b := br{scopes[rg.Intn(len(scopes))], uint32(rg.Intn(2))}
			if c.resume {
				// resumed recoveries: mostly one scope, mostly its internal branch, so
				// that the two branches' persisted counts differ widely at the resume point
				if rg.Intn(4) != 0 {
					b.scope = favScope
				}
				if rg.Intn(5) != 0 {
					b.branch = favBranch
				}
			}
			idx := uint32(rg.Intn(int(next[b] + c.W)))
			if c.resume && b.scope == favScope && b.branch == favBranch {
				idx = next[b] + uint32(rg.Intn(int(c.W))) // keeps climbing
			}
			if rg.Intn(3) == 0 {
				idx = next[b] + c.W - 1 // the far edge of the look-ahead
			}
			addr, err := wd.addr(b, idx, ch)
			if err != nil {
				continue
			}
			pk, _ := txscript.PayToAddrScript(addr)
			n++
			tx := wire.NewMsgTx(2)
			tx.AddTxIn(wire.NewTxIn(&wire.OutPoint{Hash: chainhash.Hash{0xaa, byte(n), byte(n >> 8), byte(cs)}, Index: 0}, nil, nil))
			amt := btcutil.Amount(10000 + rg.Intn(100000))
			tx.AddTxOut(wire.NewTxOut(int64(amt), pk))
			txs = append(txs, tx)
			if b.scope != customScope {
				// (funds sent to non-default scopes are found and their addresses
				// extended, but by design never credited: wallet.addRelevantTx)
				utxo[wire.OutPoint{Hash: tx.TxHash(), Index: 0}] = amt
			} else {
				notCredited[addr.EncodeAddress()] = true
			}
			txAt[tx.TxHash()] = int32(h)
			payHeights[int32(h)] = true
			if nearBoundary && b.scope != customScope { // only outputs the wallet credits can be spent later
				reserved[wire.OutPoint{Hash: tx.TxHash(), Index: 0}] = true
				boundaryOps = append(boundaryOps, bop{wire.OutPoint{Hash: tx.TxHash(), Index: 0}, h + 30})
			}
			plog = append(plog, fmt.Sprintf("h=%d pay %v/%d idx=%d (highest paid earlier %d, W=%d) amt=%d", h, b.scope, b.branch, idx, int(next[b])-1, c.W, amt))
			txWhat[tx.TxHash()] = plog[len(plog)-1]
			if idx+1 > foundThis[b] {
				foundThis[b] = idx + 1
			}
			if int(idx) > highest[b] {
				highest[b] = int(idx)
			}
			usedAddrs[addr.EncodeAddress()] = addr
		}
		// spends of outputs created in EARLIER blocks: without change (only
		// visible through the watched outpoint), or with change to an internal address
		// long chains: every output funded around a batch boundary is later
		// spent WITHOUT change, one per block, well inside the next batch
		var forced *wire.OutPoint
		if c.boundary && len(boundaryOps) > 0 && h > boundaryOps[0].after {
			forced = &boundaryOps[0].op
			boundaryOps = boundaryOps[1:]
		}
		if len(utxo) > 0 && (forced != nil || rg.Intn(6) == 0 || (c.boundary && pays == 0 && rg.Intn(30) == 0)) {
			var ops []wire.OutPoint
			for op := range utxo {
				if txAt[op.Hash] < int32(h) && !reserved[op] {
					ops = append(ops, op)
				}
			}
			sort.Slice(ops, func(i, j int) bool { return ops[i].String() < ops[j].String() })
			if forced != nil {
				ops = append(ops, *forced)
			}
			if len(ops) > 0 {
				op := ops[rg.Intn(len(ops))]
				if forced != nil {
					op = *forced
				}
				tx := wire.NewMsgTx(2)
				tx.AddTxIn(wire.NewTxIn(&op, nil, nil))
				val := utxo[op]
				delete(utxo, op)
				what := "no change"
				customChange := false
				if forced == nil && rg.Intn(2) == 0 {
					b := br{scopes[rg.Intn(len(scopes))], 1}
					idx := uint32(rg.Intn(int(next[b] + c.W)))
					if addr, err := wd.addr(b, idx, ch); err == nil {
						pk, _ := txscript.PayToAddrScript(addr)
						chg := val / 2
						tx.AddTxOut(wire.NewTxOut(int64(chg), pk))
						if b.scope != customScope {
							utxo[wire.OutPoint{Hash: tx.TxHash(), Index: 0}] = 0 // fixed below
						} else {
							notCredited[addr.EncodeAddress()] = true
							customChange = true
						}
						if idx+1 > foundThis[b] {
							foundThis[b] = idx + 1
						}
						if int(idx) > highest[b] {
							highest[b] = int(idx)
						}
						usedAddrs[addr.EncodeAddress()] = addr
						what = fmt.Sprintf("change %d to %v/1 idx=%d", chg, b.scope, idx)
					}
				}
				tx.AddTxOut(wire.NewTxOut(int64(val/3), []byte{txscript.OP_TRUE}))
				// re-key the change utxo now that the tx is final
				for o := range utxo {
					if utxo[o] == 0 {
						delete(utxo, o)
					}
				}
				if len(tx.TxOut) == 2 && !customChange {
					utxo[wire.OutPoint{Hash: tx.TxHash(), Index: 0}] = btcutil.Amount(tx.TxOut[0].Value)
				}
				txs = append(txs, tx)
				txAt[tx.TxHash()] = int32(h)
				plog = append(plog, fmt.Sprintf("h=%d spend %v:%d (%s)", h, op.Hash.String()[:8], op.Index, what))
				txWhat[tx.TxHash()] = plog[len(plog)-1] + "; the spent output: " + txWhat[op.Hash]
			}
		}
		ch.Extend(txs...)
		for b, v := range foundThis {
			if v > next[b] {
				next[b] = v
			}
		}
	}
	_ = firstBatchLast
	var expectBal btcutil.Amount
	for _, a := range utxo {
		expectBal += a
	}
	creationTime := ch.BlockAt(int32(c.creation)).Header.Timestamp
	if c.creation == 0 {
		creationTime = ch.BlockAt(1).Header.Timestamp.Add(-time.Hour)
	}
	h, err := wh.New(rg, dir, params, seed, ch, creationTime)
	if err != nil {
		r.Inconclusive("harness: " + err.Error())
		return
	}
	defer h.Close()
	if c.custom {
		err := walletdb.Update(h.DB, func(tx walletdb.ReadWriteTx) error {
			ns := tx.ReadWriteBucket(wh.AddrNS)
			m, err := waddrmgr.Open(ns, h.PubPass, params)
			if err != nil {
				return err
			}
			defer m.Close()
			if err := m.Unlock(ns, append([]byte(nil), h.PrivPass...)); err != nil {
				return err
			}
			_, err = m.NewScopedKeyManager(ns, customScope, waddrmgr.ScopeAddrSchema{ExternalAddrType: waddrmgr.WitnessPubKey, InternalAddrType: waddrmgr.WitnessPubKey})
			return err
		})
		if err != nil {
			r.Inconclusive("harness: custom scope: " + err.Error())
			return
		}
		r.Hit("recoveries-with-a-custom-key-scope", 1)
	}
	desc := fmt.Sprintf("%+v payments=%d", c, len(plog))
	fail := func(key, what string) {
		lg := plog
		if len(lg) > 150 {
			lg = lg[:150]
		}
		r.Violation(key, desc+": "+what, "recovery", cs, map[string]any{"case": desc, "chain": lg, "what": what})
	}
	var failed int32
	if c.failAt > 0 {
		ch.FilterHook = func(call int) error {
			if call == c.failAt {
				atomic.StoreInt32(&failed, 1)
				return errors.New("injected FilterBlocks failure")
			}
			return nil
		}
	}
	if c.resume {
		var first int32 = -1
		ch.FilterReqHook = func(call int, fh int32) error {
			if first < 0 {
				first = fh
			}
			if fh >= first+2000 && atomic.CompareAndSwapInt32(&failed, 0, 1) {
				return errors.New("injected FilterBlocks failure at the start of the second batch")
			}
			return nil
		}
	}
	openDone := make(chan error, 1)
	go func() { openDone <- h.Open(c.W, c.unlocked) }()
	// waitOpen waits for the pending Open.  Decided on logical steps, not time:
	// one synchronisation attempt asks the backend for its best block a handful
	// of times; thousands of such calls mean the wallet is failing and retrying
	// the sync over and over.  The wall-clock deadline only yields inconclusive.
	waitOpen := func() (error, bool) {
		deadline := time.After(300 * time.Second)
		for {
			select {
			case e := <-openDone:
				return e, true
			case <-time.After(50 * time.Millisecond):
				if n := ch.BestCalls(); n > 2000 {
					errLines := logTail()
					r.Violation("c16:recovery-never-completes", fmt.Sprintf("%s: the wallet keeps failing to synchronise and retrying (%d GetBestBlock calls so far); recent errors in this process: %s", desc, n, errLines), "recovery", cs, map[string]any{"case": desc, "chain": plog, "errors": errLines})
					h.Abandon()
					return nil, false
				}
			case <-deadline:
				r.Inconclusive("recovery watchdog (300 s): " + desc)
				h.Abandon()
				return nil, false
			}
		}
	}
	if c.restartOn {
		// once the injected failure happened, stop the wallet and reopen it:
		// the recovery must resume from what was persisted
		for i := 0; i < 20000 && atomic.LoadInt32(&failed) == 0; i++ {
			select {
			case err := <-openDone:
				openDone <- err
				i = 1 << 30
			default:
				time.Sleep(time.Millisecond)
			}
		}
		if atomic.LoadInt32(&failed) == 1 {
			if _, ok := waitOpen(); !ok {
				return
			}
			h.Stop()
			r.Hit("recoveries-stopped-and-resumed", 1)
			go func() { openDone <- h.Open(c.W, c.unlocked) }()
		}
	}
	err2, ok := waitOpen()
	if !ok {
		return
	}
	if err := err2; err != nil {
		if errors.Is(err, wh.ErrNotSynced) {
			r.Inconclusive("recovery watchdog: " + desc)
			return
		}
		fail("c16:open-failed", err.Error())
		return
	}
	if atomic.LoadInt32(&failed) == 1 {
		r.Hit("recoveries-interrupted-by-backend-error", 1)
		if c.resume {
			r.Hit("recoveries-resumed-after-a-committed-batch", 1)
		}
	}
	w := h.W
	// (1) balance
	for _, mc := range []int32{0, 1} {
		bal, err := w.CalculateBalance(mc)
		if err != nil || bal != expectBal {
			// diagnosis
			us, _ := w.ListUnspent(0, 1<<30, "")
			got := map[string]bool{}
			for _, u := range us {
				got[fmt.Sprintf("%s:%d", u.TxID, u.Vout)] = true
			}
			var miss, extra []string
			for op := range utxo {
				k := fmt.Sprintf("%s:%d", op.Hash, op.Index)
				if !got[k] {
					miss = append(miss, fmt.Sprintf("%s@h%d", k[:12], txAt[op.Hash]))
				}
				delete(got, k)
			}
			for k := range got {
				extra = append(extra, k[:12])
			}
			key := "c16:balance-wrong"
			if len(miss) > 0 && len(extra) == 0 {
				key = "c16:output-not-recovered"
			} else if len(extra) > 0 && len(miss) == 0 {
				key = "c16:spend-not-recorded"
			}
			fail(key, fmt.Sprintf("CalculateBalance(%d) = %v (err %v), chain ledger %v; unspent outputs missing in wallet %v, extra in wallet (spent on chain) %v", mc, bal, err, expectBal, miss, extra))
			return
		}
	}
	// (2) spendable set
	us, err := w.ListUnspent(0, 1<<30, "")
	if err != nil {
		fail("c16:listunspent", err.Error())
		return
	}
	if len(us) != len(utxo) {
		fail("c16:unspent-set-wrong", fmt.Sprintf("ListUnspent has %d entries, ledger %d", len(us), len(utxo)))
		return
	}
	for _, u := range us {
		hh, _ := chainhash.NewHashFromStr(u.TxID)
		amt, ok := utxo[wire.OutPoint{Hash: *hh, Index: u.Vout}]
		ua, _ := btcutil.NewAmount(u.Amount)
		if !ok || amt != ua {
			fail("c16:unspent-set-wrong", fmt.Sprintf("ListUnspent entry %s:%d amount %v, ledger has %v (%v)", u.TxID[:10], u.Vout, ua, amt, ok))
			return
		}
	}
	// (3) every used address known and marked used; every tx recorded in its block
	var bad string
	walletdb.View(h.DB, func(tx walletdb.ReadTx) error {
		ans := tx.ReadBucket(wh.AddrNS)
		tns := tx.ReadBucket(wh.TxNS)
		for s, a := range usedAddrs {
			ma, err := w.Manager.Address(ans, a)
			if err != nil {
				bad = fmt.Sprintf("used-address-unknown|used address %s is not known to the recovered wallet: %v", s, err)
				return nil
			}
			if !ma.Used(ans) && !notCredited[s] {
				bad = fmt.Sprintf("used-address-not-marked|address %s was paid on chain but is not marked used", s)
				return nil
			}
		}
		for hh, ht := range txAt {
			hh := hh
			d, err := w.TxStore.TxDetails(tns, &hh)
			if err != nil || d == nil {
				bad = fmt.Sprintf("tx-not-recorded|transaction %v (block %d) paying to / spending from the wallet is not recorded [%s]", hh, ht, txWhat[hh])
				return nil
			}
			if d.Block.Height != ht {
				bad = fmt.Sprintf("tx-wrong-block|transaction %v recorded at height %d, chain has it at %d", hh, d.Block.Height, ht)
				return nil
			}
		}
		return nil
	})
	if bad != "" {
		i := 0
		for bad[i] != '|' {
			i++
		}
		fail("c16:"+bad[:i], bad[i+1:])
		return
	}
	// (4) next index of every branch above the highest used one
	for b, nx := range next {
		props, err := w.AccountProperties(b.scope, 0)
		if err != nil {
			fail("c16:account-properties", err.Error())
			return
		}
		cnt := props.ExternalKeyCount
		if b.branch == 1 {
			cnt = props.InternalKeyCount
		}
		if cnt < nx {
			fail("c16:next-index-not-above-used", fmt.Sprintf("branch %v/%d: next index %d, highest used index %d", b.scope, b.branch, cnt, nx-1))
			return
		}
	}
	// (5) scanning starts no later than the first block that could pay the wallet
	bb, err := w.BirthdayBlock()
	if err != nil {
		fail("c16:birthday-block", err.Error())
		return
	}
	if c.boundary {
		// the first batch is (birthday, birthday+2000]: was its LAST block funded?
		if payHeights[bb.Height+2000] {
			r.Hit("chains-with-the-last-block-of-a-full-batch-funded", 1)
		} else {
			r.Hit("chains-where-the-estimated-batch-boundary-missed", 1)
			plog = append(plog, fmt.Sprintf("note: birthday block %d, last block of the first batch %d not funded", bb.Height, bb.Height+2000))
		}
	}
	firstCould := int32(-1)
	for hh := int32(0); hh <= ch.Height(); hh++ {
		if !ch.BlockAt(hh).Header.Timestamp.Before(creationTime) {
			firstCould = hh
			break
		}
	}
	if firstCould > 0 && bb.Height >= firstCould {
		fail("c16:birthday-too-late", fmt.Sprintf("birthday block height %d, but block %d already has a timestamp >= the creation time (scanning starts after the birthday block)", bb.Height, firstCould))
		return
	}
	// (6) the wallet can sign for every recovered address incl. the gap ones
	if !c.unlocked {
		if err := w.Unlock(h.PrivPass, nil); err != nil {
			fail("c16:unlock-after-recovery", err.Error())
			return
		}
	}
	keys := 0
	for b, nx := range next {
		for i := uint32(0); i < nx; i++ {
			a, err := wd.addr(b, i, ch)
			if err != nil {
				continue
			}
			if _, err := w.PrivKeyForAddress(a); err != nil {
				fail("c16:cannot-sign-for-recovered-address", fmt.Sprintf("branch %v/%d index %d (used=%v): %v", b.scope, b.branch, i, usedAddrs[a.EncodeAddress()] != nil, err))
				return
			}
			keys++
		}
	}
	// (7) what recovery left in memory is what it left on disk: the branch
	// counters of every scope (custom ones included) are the same after a restart
	if c.custom || idx%4 == 0 {
		counts := func() map[string]string {
			out := map[string]string{}
			for _, sc := range scopes {
				p, err := h.W.AccountProperties(sc, 0)
				if err != nil {
					out[fmt.Sprint(sc)] = "ERR " + err.Error()
					continue
				}
				out[fmt.Sprint(sc)] = fmt.Sprintf("ext=%d int=%d", p.ExternalKeyCount, p.InternalKeyCount)
			}
			return out
		}
		running := counts()
		h.Stop()
		if err := h.OpenOffline(false); err != nil {
			fail("c16:reopen", err.Error())
			return
		}
		reopened := counts()
		for k, v := range running {
			if reopened[k] != v {
				fail("c16:branch-counters-differ-after-restart", fmt.Sprintf("scope %s: the recovered wallet reports %s, after a restart it reports %s", k, v, reopened[k]))
				return
			}
		}
		r.Hit("recoveries-compared-with-a-restarted-wallet", 1)
	}
	r.Hit("recoveries", 1)
	r.Hit("payments", len(plog))
	r.Hit("used-addresses-checked", len(usedAddrs))
	r.Hit("private-keys-checked", keys)
	r.Hit("blocks-scanned", c.blocks)
	r.Hit(fmt.Sprintf("window-%d", c.W), 1)
	if c.boundary {
		r.Hit("batch-boundary-chains", 1)
	}
	if c.unlocked {
		r.Hit("recovered-unlocked", 1)
	} else {
		r.Hit("recovered-locked", 1)
	}
	r.Hit("filterblocks-calls", ch.FilterCalls())
	r.Case(desc, len(plog) > 0)
	if r.WantSample() && len(plog) > 3 && len(plog) < 25 {
		r.Sample(map[string]any{"case": desc, "chain": plog})
	}
}

// lookahead checks the horizon protocol of wallet.BranchRecoveryState with
// synthetic invalid children (real keys cannot produce them).
func lookahead(r *evid.Run, cs int64) {
	rg := rand.New(rand.NewSource(cs))
	W := uint32(1 + rg.Intn(20))
	invalid := map[uint32]bool{}
	for i := 0; i < rg.Intn(12); i++ {
		invalid[uint32(rg.Intn(120))] = true
	}
	brs := wallet.NewBranchRecoveryState(W)
	derived := map[uint32]bool{}
	for round := 0; round < 30; round++ {
		// protocol of expandScopeHorizons
		horizon, window := brs.ExtendHorizon()
		count, child := uint32(0), horizon
		for count < window {
			if invalid[child] {
				brs.MarkInvalidChild(child)
				child++
				continue
			}
			derived[child] = true
			brs.AddAddr(child, nil)
			child++
			count++
		}
		// invariant: at least W valid children at or beyond nextUnfound are derived
		nu := brs.NextUnfound()
		valid := 0
		for i := nu; i < nu+W+uint32(len(invalid))+2; i++ {
			if derived[i] && !invalid[i] {
				valid++
			}
		}
		if uint32(valid) < W {
			r.Violation("c16:lookahead-too-short", fmt.Sprintf("W=%d invalid=%v: after expanding, only %d valid children at or beyond next-unfound index %d are inside the horizon", W, keysOf(invalid), valid, nu), "lookahead", cs, nil)
			return
		}
		r.Hit("lookahead-invariant-checks", 1)
		// a block pays an index inside the look-ahead (a valid derived child)
		var cands []uint32
		for i := nu; i < nu+W+uint32(len(invalid)); i++ {
			if derived[i] && !invalid[i] {
				cands = append(cands, i)
			}
		}
		if len(cands) > W32(W) {
			cands = cands[:W]
		}
		brs.ReportFound(cands[rg.Intn(len(cands))])
	}
	r.Case(fmt.Sprintf("lookahead/%d/%v", W, keysOf(invalid)), len(invalid) > 0)
}

func W32(w uint32) int { return int(w) }

func keysOf(m map[uint32]bool) []int {
	var r []int
	for k := range m {
		r = append(r, int(k))
	}
	sort.Ints(r)
	return r
}

// ring buffer of the wallet's error log lines (diagnosis only)
type ring struct {
	mu    sync.Mutex
	lines []string
}

func (g *ring) Write(b []byte) (int, error) {
	g.mu.Lock()
	if strings.Contains(string(b), "[ERR]") {
		g.lines = append(g.lines, strings.TrimSpace(string(b)))
		if len(g.lines) > 6 {
			g.lines = g.lines[len(g.lines)-6:]
		}
	}
	g.mu.Unlock()
	return len(b), nil
}

var errRing = &ring{}

func logTail() string {
	errRing.mu.Lock()
	defer errRing.mu.Unlock()
	return strings.Join(errRing.lines, " || ")
}

func main() {
	lg := btclog.NewBackend(errRing).Logger("WLLT")
	lg.SetLevel(btclog.LevelError)
	wallet.UseLogger(lg)
	r := evid.New(P, "exploration")
	r.Rule("generated chains (25..400 blocks; one long chain per quick run and several per thorough run of 2050..4400 blocks crossing the 2000-block recovery batch boundary, with payments forced into the +-14 blocks around each boundary) in which every block pays, per default key scope and branch, only indices <= (highest index paid in earlier blocks) + W (incl. the far edge of the look-ahead and re-use of old indices), several payments per block, later spends of recovered outputs with and without change (the latter visible only through watched outpoints), W in {1,2,3,5,20}, block spacing 10 min / 2 h / 6 h with the creation time at a random height or before the chain, recovery locked or unlocked, every fifth wallet with a custom key scope (m/1017'/1', P2WPKH) registered beforehand and paid to, interrupted by a FilterBlocks error at the k-th call (sync retry resumes) and by stop + reopen; two RESUME chains per run (2400..2700 blocks, payments concentrated on one branch of one scope so that the two persisted branch counters differ widely) in which the first FilterBlocks call of the second batch fails, so that the retry resumes from a committed batch (one of them with stop + reopen); addresses come from the independent BIP32 oracle (legacy rule). After recovery the generator's ledger is the oracle: CalculateBalance(0/1), ListUnspent as a set with amounts, every used address known and marked used, every paying/spending transaction recorded at its height, each branch's key count above the highest used index, BirthdayBlock below the first block whose timestamp reaches the creation time, and PrivKeyForAddress for every index up to the highest used one (gap addresses too). Invalid child indices are driven synthetically at the exported BranchRecoveryState API (look-ahead invariant). Non-trivial = chain with at least one payment; distinct = distinct case descriptions.")
	r.Trusted("internal/fakechain FilterBlocks built on the real chain.BlockFilterer (anchored code)", "independent BIP32 oracle")
	r.Assume("payments only in blocks whose timestamp is >= the creation time handed to wallet.Create", "look-ahead condition read as index <= highest-paid-earlier + W (what horizon = nextUnfound + W gives)")
	dir := r.TempDir("c16")
	defer os.RemoveAll(dir)
	r.Parallel("recovery", r.N(40, 900), evid.Workers(), func(i int, cs int64) { runCase(r, dir, cs, i) })
	r.Parallel("lookahead", r.N(200, 5000), evid.Workers(), func(i int, cs int64) { lookahead(r, cs) })
	r.Require("recoveries", 25)
	r.Require("payments", 300)
	r.Require("batch-boundary-chains", 1)
	r.Require("recoveries-interrupted-by-backend-error", 3)
	r.Require("recoveries-resumed-after-a-committed-batch", 1)
	r.Require("chains-with-the-last-block-of-a-full-batch-funded", 1)
	r.Require("lookahead-invariant-checks", 2000)
	os.Exit(r.Finish())
}
