// C04 — no secret ever reaches the database file unencrypted.
package main

import (
	"os"

	"verif/internal/evid"
	"verif/internal/mgr"
)

const P = "C04"

func main() {
	r := evid.New(P, "exploration")
	r.Rule("operation sequences over create, derive (all scopes, both branches), new account, custom scope, xpub-account import, import of private key / public key / P2SH script / witness script (secret and public) / taproot script, passphrase change (public and private, locked and unlocked), lock/unlock, mark-used, restart and convert-to-watching-only on a real manager over a real bdb file. The harness knows every secret because it chose or derived them (independent BIP32 oracle): seed, root / purpose / coin-type / account private keys raw, as chain-code||0x00||key and as base58 xprv strings, every issued address's private key raw and WIF, imported keys, secret scripts, every passphrase ever used; and the public counterparts (xpub strings, chain-code||pubkey, 33-byte and x-only public keys, hash160, script addresses, address strings). An 8-byte-prefix indexed multi-pattern scanner checks (a) every key and value at Put time and (b) the RAW FILE IMAGE (walletdb Copy = bbolt WriteTo: all pages incl. freed ones) after every operation, i.e. every image a crash between commits could leave. After conversion: restart, every address still resolves, every passphrase ever used is refused with a watching-only error, the full private-access battery fails. Non-trivial = sequence with >= 30 secret patterns and >= 10 scanned images; distinct = distinct op-kind sequences.")
	r.Trusted("walletdb.DB.Copy returns the raw page image", "independent BIP32 oracle for the key material", "hdkeychain/btcutil base58 encoders for the string forms")
	r.Assume("a byte scan cannot tell under which key a ciphertext is sealed (C05 covers access)", "patterns straddling a page boundary between two database versions are not detected", "public material is enforced throughout: these histories never record a transaction")
	dir, _ := os.MkdirTemp("", "c04")
	defer os.RemoveAll(dir)
	wt := mgr.DefaultWeights
	wt.Convert, wt.ImportPriv, wt.ImportScript, wt.ImportWScript, wt.ImportTScript, wt.ChangePriv, wt.ChangePub, wt.Unlock = 2, 5, 4, 4, 3, 5, 4, 10
	cfg := mgr.Config{Weights: wt, MinSteps: 10, MaxSteps: r.N(50, 60), C04: true}
	r.Parallel("history", r.N(60, 1500), evid.Workers(), func(i int, cs int64) {
		res := mgr.RunHistory(cfg, cs, dir)
		mgr.Record(r, res, "history", cs, res.Stats["c04-secret-patterns"] >= 30 && res.Stats["c04-images-scanned"] >= 10)
	})
	r.Require("c04-images-scanned", 500)
	r.Require("c04-writes-scanned", 5000)
	r.Require("c04-secret-patterns", 3000)
	r.Require("c04-conversions-checked", 5)
	r.Require("op:importpriv", 30)
	os.Exit(r.Finish())
}
