// C04 — no secret ever reaches the database file unencrypted.
package main

import (
	"bytes"
	"errors"
	"fmt"
	"math/rand"
	"os"

	"github.com/btcsuite/btcd/btcutil"
	"github.com/btcsuite/btcd/btcutil/hdkeychain"
	"github.com/btcsuite/btcwallet/waddrmgr"

	"verif/internal/evid"
	"verif/internal/fakechain"
	"verif/internal/mgr"
	"verif/internal/oracle"
	"verif/internal/wh"
)

// walletConvert drives the WALLET-level conversion path (Wallet.InitAccounts
// with watchOnly=true is the wallet's only caller of ConvertToWatchingOnly)
// over different account histories, reopens the wallet and demands the
// watching-only guarantees plus a clean file image.
func walletConvert(r *evid.Run, dir string, cs int64) {
	rg := rand.New(rand.NewSource(cs))
	params := wh.Params(5)
	ch := fakechain.New(params)
	for i := 0; i < 3; i++ {
		ch.Extend()
	}
	h, err := wh.New(rg, dir, params, nil, ch, ch.BlockAt(1).Header.Timestamp)
	if err != nil {
		r.Inconclusive("harness: " + err.Error())
		return
	}
	defer h.Close()
	if err := h.Open(0, true); err != nil {
		if errors.Is(err, wh.ErrNotSynced) {
			r.Inconclusive("sync watchdog")
			return
		}
		r.Violation("c04:harness-setup", err.Error(), "walletconvert", cs, nil)
		return
	}
	scope := []waddrmgr.KeyScope{waddrmgr.KeyScopeBIP0084, waddrmgr.KeyScopeBIP0086, waddrmgr.KeyScopeBIP0044}[rg.Intn(3)]
	sm, _ := h.W.Manager.FetchScopedKeyManager(scope)
	var log []string
	fail := func(key, what string) {
		r.Violation(key, what, "walletconvert", cs, map[string]any{"steps": log, "what": what})
	}
	k1 := uint32(rg.Intn(4))
	if rg.Intn(3) != 0 {
		if err := h.W.InitAccounts(sm, false, k1); err != nil {
			fail("c04:initaccounts", err.Error())
			return
		}
		log = append(log, fmt.Sprintf("InitAccounts(%v, watchOnly=false, %d)", scope, k1))
	} else {
		k1 = 0
	}
	var addrs []btcutil.Address
	for i := 0; i < 2+rg.Intn(4); i++ {
		a, err := h.W.NewAddress(uint32(rg.Intn(int(k1)+1)), scope)
		if err != nil {
			fail("c04:newaddress", err.Error())
			return
		}
		addrs = append(addrs, a)
	}
	log = append(log, fmt.Sprintf("issued %d addresses", len(addrs)))
	// secrets the harness can name independently: seed-derived keys of account 0 and the first addresses
	sc := mgr.NewScanner()
	sc.Add(true, "seed", h.Seed)
	sc.Add(true, "root-xprv", []byte(h.Root.String()))
	sc.Add(true, "privpass", []byte("priv-is-too-short-to-scan"))
	leg, _, _, err := oracle.AccountKey(h.Seed, scope.Purpose, scope.Coin, 0)
	if err == nil {
		sc.Add(true, "acct-key", leg.Key[:])
		for br := uint32(0); br < 2; br++ {
			bk, _ := leg.Child(br, false)
			for i := uint32(0); i < 8; i++ {
				if ck, err := bk.Child(i, false); err == nil {
					sc.Add(true, fmt.Sprintf("addr-priv %d/%d", br, i), ck.Key[:])
				}
			}
		}
	}
	// an account import handed an extended PRIVATE key that carries the public
	// version bytes (a caller that re-versioned its key and forgot to neuter it):
	// whatever the wallet stores in the account's public slot is readable with the
	// public passphrase alone, so this must be refused (and never handed back)
	if rg.Intn(2) == 0 {
		sd := make([]byte, 32)
		rg.Read(sd)
		if leg, _, _, err := oracle.AccountKey(sd, 84, 0, 0); err == nil && leg.Priv {
			hd := hdkeychain.NewExtendedKey(params.HDPublicKeyID[:], leg.Key[:], leg.Chain[:], []byte{1, 2, 3, 4}, 3, oracle.H, true)
			at := waddrmgr.WitnessPubKey
			props, err := h.W.ImportAccount(fmt.Sprintf("unneutered-%d", rg.Intn(1e6)), hd, rg.Uint32(), &at)
			log = append(log, fmt.Sprintf("ImportAccount(private key with public version bytes) -> %v", err))
			r.Hit("c04-private-keys-offered-as-public-account-keys", 1)
			if err == nil {
				what := "ImportAccount accepted an extended private key that carries the public version bytes; the key is stored in the account's PUBLIC slot (sealed under the public passphrase only)"
				if props != nil && props.AccountPubKey != nil && props.AccountPubKey.IsPrivate() {
					what += ", and AccountProperties hands it back as a private key"
				}
				fail("c04:private-key-stored-as-public-material", what)
				return
			}
		}
	}
	k2 := []uint32{0, k1, k1 + 1, k1 + 2}[rg.Intn(4)]
	if err := h.W.InitAccounts(sm, true, k2); err != nil {
		fail("c04:initaccounts-convert", err.Error())
		return
	}
	log = append(log, fmt.Sprintf("InitAccounts(%v, watchOnly=TRUE, %d)  (highest existing account %d)", scope, k2, k1))
	h.Stop()
	if err := h.Open(0, false); err != nil {
		fail("c04:reopen-after-conversion", err.Error())
		return
	}
	log = append(log, "stop + reopen")
	if !h.W.Manager.WatchOnly() {
		fail("c04:not-watch-only-after-restart", "the wallet was converted to watching-only (InitAccounts returned nil) but after a restart it is not watching-only")
		return
	}
	if err := h.W.Unlock(h.PrivPass, nil); err == nil {
		fail("c04:unlock-after-conversion", "the private passphrase unlocks a wallet that was converted to watching-only")
		return
	}
	for _, a := range addrs {
		ok, err := h.W.HaveAddress(a)
		if err != nil || !ok {
			fail("c04:address-forgotten-by-conversion", fmt.Sprintf("address %v is no longer known after conversion (%v)", a, err))
			return
		}
		if k, err := h.W.PrivKeyForAddress(a); err == nil || k != nil {
			fail("c04:private-key-after-conversion", fmt.Sprintf("PrivKeyForAddress(%v) returns a key after conversion", a))
			return
		}
	}
	var img bytes.Buffer
	if err := h.DB.Copy(&img); err == nil {
		if d := sc.Scan(img.Bytes(), "database file image after conversion"); d != nil {
			fail(d.Key, d.What)
			return
		}
	}
	r.Hit("c04-wallet-level-conversions-checked", 1)
	r.Case(fmt.Sprint("walletconvert", log), true)
}

const P = "C04"

func main() {
	r := evid.New(P, "exploration")
	r.Rule("operation sequences over create, derive (all scopes, both branches), new account, custom scope, xpub-account import, import of private key / public key / P2SH script / witness script (secret and public) / taproot script, passphrase change (public and private, locked and unlocked), lock/unlock, mark-used, restart, deletion of the master HD root key (NeuterRootKey) and convert-to-watching-only (two of three conversions preceded by an attempt that fails at a random database write and is rolled back) on a real manager over a real bdb file. The harness knows every secret because it chose or derived them (independent BIP32 oracle): seed, root / purpose / coin-type / account private keys raw, as chain-code||0x00||key and as base58 xprv strings, every issued address's private key raw and WIF, imported keys, secret scripts, every passphrase ever used; and the public counterparts (xpub strings, chain-code||pubkey, 33-byte and x-only public keys, hash160, script addresses, address strings). An 8-byte-prefix indexed multi-pattern scanner checks (a) every key and value at Put time and (b) the RAW FILE IMAGE (walletdb Copy = bbolt WriteTo: all pages incl. freed ones) after every operation, i.e. every image a crash between commits could leave. After conversion: restart, every address still resolves, every passphrase ever used is refused with a watching-only error, the full private-access battery fails. Non-trivial = sequence with >= 30 secret patterns and >= 10 scanned images; distinct = distinct op-kind sequences.")
	r.Trusted("walletdb.DB.Copy returns the raw page image", "independent BIP32 oracle for the key material", "hdkeychain/btcutil base58 encoders for the string forms")
	r.Assume("a byte scan cannot tell under which key a ciphertext is sealed (C05 covers access)", "patterns straddling a page boundary between two database versions are not detected", "public material is enforced throughout: these histories never record a transaction")
	dir := r.TempDir("c04")
	defer os.RemoveAll(dir)
	wt := mgr.DefaultWeights
	wt.Convert, wt.ImportPriv, wt.ImportScript, wt.ImportWScript, wt.ImportTScript, wt.ChangePriv, wt.ChangePub, wt.Unlock = 2, 5, 4, 4, 3, 5, 4, 10
	wt.Neuter, wt.NewScope = 2, 4
	cfg := mgr.Config{Weights: wt, MinSteps: 10, MaxSteps: r.N(50, 60), C04: true}
	r.Parallel("history", r.N(60, 1500), evid.Workers(), func(i int, cs int64) {
		res := mgr.RunHistory(cfg, cs, dir)
		mgr.Record(r, res, "history", cs, res.Stats["c04-secret-patterns"] >= 30 && res.Stats["c04-images-scanned"] >= 10)
	})
	r.Parallel("walletconvert", r.N(16, 300), evid.Workers(), func(i int, cs int64) { walletConvert(r, dir, cs) })
	r.Require("c04-wallet-level-conversions-checked", 10)
	r.Require("c04-private-keys-offered-as-public-account-keys", 2)
	r.Require("c04-images-scanned", 500)
	r.Require("c04-lock-requests-during-a-root-manager-operation", 3)
	r.Require("c04-unlocks-raced-by-an-importer", 10)
	r.Require("c04-writes-scanned", 5000)
	r.Require("c04-secret-patterns", 3000)
	r.Require("c04-conversions-checked", 5)
	r.Require("c04-post-conversion-private-key-open-attempts", 50)
	r.Require("c04-conversions-retried-after-a-failed-attempt", 3)
	r.Require("op:importpriv", 30)
	os.Exit(r.Finish())
}
