// C10 — a failed database write never leaves a half-applied or silently lost change.
package main

import (
	"os"

	"verif/internal/evid"
	"verif/internal/ledger"
	"verif/internal/mgr"
)

const P = "C10"

func main() {
	r := evid.New(P, "fault_enumeration")
	r.Rule("fault enumeration: from states reached by random prefixes, EVERY mutating operation instance is first run with its k-th database write (Put / Delete / CreateBucket* / DeleteNestedBucket / NextSequence / cursor delete, counted per transaction by the vdb wrapper) failing, for every k = 1..W until the operation runs fault-free. Per injected fault: the operation must return an error (no swallowed write error), and after the enclosing transaction rolled back the complete query surface must equal the one before (wtxmgr: balance grid, unspent, watch set, unmined set, TxDetails of every universe tx, per-block ranges, leases; waddrmgr: the C08 battery on the running manager, plus running-vs-restarted). The final fault-free retry must succeed like a fault-free twin (same success/failure; for waddrmgr the post-state battery must equal that of a fresh manager on a copy that ran the operation without faults; returned addresses must be the oracle's). Operations: wtxmgr InsertTx mined/unmined (+AddCredit), Rollback, RemoveUnminedTx, LockOutput, UnlockOutput, DeleteExpiredLockedOutputs; waddrmgr Next*/Extend*, NewAccount, NewAccountWatchingOnly, RenameAccount, ImportPrivateKey, ImportPublicKey, ImportScript/WitnessScript/TaprootScript, MarkUsed, SetSyncedTo, ChangePassphrase(pub/priv), NewScopedKeyManager, ConvertToWatchingOnly. Non-trivial = history with at least 5 injected faults; distinct = distinct event/op sequences.")
	r.Trusted("vdb wrapper counts and fails writes at the walletdb interface boundary", "walletdb/bdb rollback (C11)")
	r.Assume("the would-be address of a failed issuing call (O-4) and Birthday() (O-5) are outside the compared surface")
	dir, _ := os.MkdirTemp("", "c10")
	defer os.RemoveAll(dir)
	lcfg := ledger.Config{MinSteps: 12, MaxSteps: r.N(30, 60), FaultSweep: true, Balance: true, Details: true, Leases: true}
	r.Parallel("wtxmgr", r.N(50, 1200), evid.Workers(), func(i int, cs int64) {
		c := lcfg
		c.ReorgHeavy = cs%2 == 0
		res := ledger.RunHistory(c, cs, dir)
		ledger.Record(r, res, "wtxmgr", cs, res.Stats["faults-injected"] >= 5)
	})
	wt := mgr.DefaultWeights
	wt.Lookup, wt.DerivePath, wt.Lock, wt.Unlock, wt.UnlockWrong, wt.Restart, wt.Convert = 2, 1, 2, 6, 1, 2, 2
	mcfg := mgr.Config{Weights: wt, MinSteps: 10, MaxSteps: r.N(30, 50), Faults: true}
	r.Parallel("waddrmgr", r.N(40, 1000), evid.Workers(), func(i int, cs int64) {
		res := mgr.RunHistory(mcfg, cs, dir)
		mgr.Record(r, res, "waddrmgr", cs, res.Stats["c10-faults-injected"] >= 5)
	})
	r.Require("faults-injected", 2000)
	r.Require("c10-faults-injected", 1000)
	r.Require("c10-ops-swept", 200)
	r.Require("fault@insert-mined:Put", 200)
	r.Require("fault@rollback:Delete", 50)
	os.Exit(r.Finish())
}
