// C10 — a failed database write never leaves a half-applied or silently lost change.
package main

import (
	"errors"
	"fmt"
	"math/rand"
	"os"
	"strings"
	"time"

	"github.com/btcsuite/btcd/wire"
	"github.com/btcsuite/btcwallet/chain"
	"github.com/btcsuite/btcwallet/waddrmgr"
	"github.com/btcsuite/btcwallet/wtxmgr"

	"verif/internal/evid"
	"verif/internal/ledger"
	"verif/internal/mgr"
	"verif/internal/wh"
)

func walletSnap(f *wh.Funded) string {
	s := f.Snapshot()
	for _, sc := range wh.FundScopes {
		if p, err := f.W.AccountProperties(sc, 0); err == nil {
			s += fmt.Sprintf(" %v:%d/%d", sc, p.ExternalKeyCount, p.InternalKeyCount)
		}
	}
	st := f.W.Manager.SyncedTo()
	return s + fmt.Sprintf(" synced=%d/%s", st.Height, st.Hash.String()[:8])
}

// walletFaults: wallet-level operations (NewAddress, NewChangeAddress, LeaseOutput,
// ReleaseOutput, relevant-transaction and block notifications) with the k-th write of
// their database transaction failing, for every k.
func walletFaults(r *evid.Run, dir string, cs int64) {
	// a failed write that leaves one of the wallet's or the manager's locks behind
	// shows as a goroutine parked on that lock for good
	stack, blocked := evid.BlockedAny([]string{"btcwallet/waddrmgr.", "btcwallet/wallet.", "btcwallet/wtxmgr."}, func() { walletFaultsRun(r, dir, cs) })
	if blocked {
		r.StopEarly()
		r.Violation("c10:wallet-blocked-after-failed-write", "after an injected write failure a goroutine inside the wallet has been parked on a lock for more than a minute while the operation sequence made no progress:\n"+stack, "wallet", cs, map[string]any{"stack": strings.Split(stack, "\n")})
	}
}

func walletFaultsRun(r *evid.Run, dir string, cs int64) {
	rg := rand.New(rand.NewSource(cs))
	f, err := wh.NewFunded(rg, dir, true, 4)
	if err != nil {
		if errors.Is(err, wh.ErrNotSynced) {
			r.Inconclusive("sync watchdog")
			return
		}
		r.Violation("c10:harness-setup", err.Error(), "wallet", cs, nil)
		return
	}
	defer f.Close()
	f.MinePending()
	var log []string
	fail := func(key, what string) {
		r.Violation(key, what, "wallet", cs, map[string]any{"operations": log, "what": what})
	}
	nops := 10 + rg.Intn(10)
	for n := 0; n < nops; n++ {
		sc := wh.FundScopes[rg.Intn(4)]
		kind := []string{"NewAddress", "NewChangeAddress", "LeaseOutput", "ReleaseOutput", "relevant-tx", "block"}[rg.Intn(6)]
		var coin *wh.Coin
		for _, c := range f.SortedCoins() {
			if c.SpentBy == "" && c.Height != -1 && (kind == "ReleaseOutput") == c.Leased {
				coin = c
				break
			}
		}
		if (kind == "LeaseOutput" || kind == "ReleaseOutput") && coin == nil {
			kind = "NewAddress"
		}
		// notifications are prepared once and (re)delivered: a failed delivery is retried by redelivering
		var ntfns []interface{}
		var payTx *wire.MsgTx
		switch kind {
		case "relevant-tx", "block":
			a, err := f.W.NewAddress(0, sc)
			if err != nil {
				fail("c10:harness-newaddress", err.Error())
				return
			}
			payTx = f.PayTo(a, int64(20000+rg.Intn(50000)))
			if kind == "relevant-tx" {
				rec, _ := wtxmgr.NewTxRecordFromMsgTx(payTx, time.Unix(1700000000, 0))
				ntfns = []interface{}{chain.RelevantTx{TxRecord: rec}}
			} else {
				b := f.Chain.Extend(payTx)
				ht := f.Chain.Height()
				bm := wtxmgr.BlockMeta{Block: wtxmgr.Block{Hash: b.BlockHash(), Height: ht}, Time: b.Header.Timestamp}
				rec, _ := wtxmgr.NewTxRecordFromMsgTx(payTx, b.Header.Timestamp)
				ntfns = []interface{}{chain.RelevantTx{TxRecord: rec, Block: &bm}, chain.BlockConnected(bm)}
			}
		}
		run := func(ni int) error {
			switch kind {
			case "NewAddress":
				_, err := f.W.NewAddress(0, sc)
				return err
			case "NewChangeAddress":
				_, err := f.W.NewChangeAddress(0, sc)
				return err
			case "LeaseOutput":
				_, err := f.W.LeaseOutput(wtxmgr.LockID{7}, coin.Op, time.Hour)
				return err
			case "ReleaseOutput":
				return f.W.ReleaseOutput(wtxmgr.LockID{7}, coin.Op)
			default:
				f.Chain.Send(ntfns[ni])
				f.Chain.Barrier()
				return nil
			}
		}
		steps := 1
		if len(ntfns) > 0 {
			steps = len(ntfns)
		}
		for ni := 0; ni < steps; ni++ {
			for k := 1; k < 300; k++ {
				before := walletSnap(f)
				f.DB.FailAt = k
				err := run(ni)
				fired := f.DB.Fired
				lf := f.DB.LastFailed
				f.DB.FailAt = 0
				if !fired {
					log = append(log, fmt.Sprintf("%s[%d] (after %d injected faults) -> %v", kind, ni, k-1, err))
					r.Hit("c10-wallet-ops-swept", 1)
					if err != nil {
						fail("c10:wallet-retry-failed:"+kind, fmt.Sprintf("%s failed without any injected fault after %d rolled-back attempts: %v", kind, k-1, err))
						return
					}
					break
				}
				r.Hit("c10-wallet-faults-injected", 1)
				r.Hit("c10-wallet-fault@"+kind, 1)
				log = append(log, fmt.Sprintf("%s[%d] FAULT@%d (%s %s) -> %v", kind, ni, k, lf.Op, lf.Path, err))
				if len(ntfns) == 0 && err == nil {
					fail("c10:swallowed-write-error:wallet-"+kind, fmt.Sprintf("Wallet.%s returned nil although write #%d of its transaction failed (%s %q)", kind, k, lf.Op, lf.Path))
					return
				}
				if after := walletSnap(f); after != before {
					fail("c10:state-changed-after-rolled-back-fault:wallet-"+kind, fmt.Sprintf("after %s failed at write #%d (%s %q): before %s after %s", kind, k, lf.Op, lf.Path, before, after))
					return
				}
			}
		}
		// fault-free effect applied in full
		switch kind {
		case "LeaseOutput":
			coin.Leased = true
		case "ReleaseOutput":
			coin.Leased = false
		case "relevant-tx", "block":
			us, _ := f.W.ListUnspent(0, 1<<30, "")
			found := false
			for _, u := range us {
				if u.TxID == payTx.TxHash().String() {
					found = true
				}
			}
			if !found {
				fail("c10:effect-lost-after-retry:wallet-"+kind, fmt.Sprintf("after the faults and the successful redelivery the payment %v is not among the wallet's outputs", payTx.TxHash()))
				return
			}
			if kind == "block" {
				if st := f.W.Manager.SyncedTo(); st.Height != f.Chain.Height() {
					fail("c10:effect-lost-after-retry:wallet-block", fmt.Sprintf("synced-to %d, backend tip %d", st.Height, f.Chain.Height()))
					return
				}
			}
		}
	}
	r.Case(fmt.Sprint("wallet", cs, len(log)), true)
	_ = waddrmgr.KeyScopeBIP0084
}

const P = "C10"

func main() {
	r := evid.New(P, "fault_enumeration")
	r.Rule("fault enumeration: from states reached by random prefixes, EVERY mutating operation instance is first run with its k-th database write (Put / Delete / CreateBucket* / DeleteNestedBucket / NextSequence / cursor delete, counted per transaction by the vdb wrapper) failing, for every k = 1..W until the operation runs fault-free. Per injected fault: the operation must return an error (no swallowed write error), and after the enclosing transaction rolled back the complete query surface must equal the one before (wtxmgr: balance grid, unspent, watch set, unmined set, TxDetails of every universe tx, per-block ranges, leases; waddrmgr: the C08 battery on the running manager, plus running-vs-restarted). The final fault-free retry must succeed like a fault-free twin (same success/failure; for waddrmgr the post-state battery must equal that of a fresh manager on a copy that ran the operation without faults; returned addresses must be the oracle's). Operations: wtxmgr InsertTx mined/unmined (+AddCredit), Rollback, RemoveUnminedTx, LockOutput, UnlockOutput, DeleteExpiredLockedOutputs; waddrmgr Next*/Extend*, NewAccount, NewAccountWatchingOnly, RenameAccount, ImportPrivateKey, ImportPublicKey, ImportScript/WitnessScript/TaprootScript, MarkUsed, SetSyncedTo, ChangePassphrase(pub/priv), NewScopedKeyManager, ConvertToWatchingOnly; wallet NewAddress, NewChangeAddress, LeaseOutput, ReleaseOutput, relevant-transaction and block notifications (a failed notification is retried by redelivery). Non-trivial = history with at least 5 injected faults; distinct = distinct event/op sequences.")
	r.Trusted("vdb wrapper counts and fails writes at the walletdb interface boundary", "walletdb/bdb rollback (C11)")
	r.Assume("the would-be address of a failed issuing call (O-4) and Birthday() (O-5) are outside the compared surface")
	dir := r.TempDir("c10")
	defer os.RemoveAll(dir)
	lcfg := ledger.Config{MinSteps: 12, MaxSteps: r.N(30, 60), FaultSweep: true, Balance: true, Details: true, Leases: true}
	r.Parallel("wtxmgr", r.N(50, 1200), evid.Workers(), func(i int, cs int64) {
		c := lcfg
		c.ReorgHeavy = cs%2 == 0
		res := ledger.RunHistory(c, cs, dir)
		ledger.Record(r, res, "wtxmgr", cs, res.Stats["faults-injected"] >= 5)
	})
	wt := mgr.DefaultWeights
	wt.Lookup, wt.DerivePath, wt.Lock, wt.Unlock, wt.UnlockWrong, wt.Restart, wt.Convert = 2, 1, 2, 6, 1, 2, 2
	mcfg := mgr.Config{Weights: wt, MinSteps: 10, MaxSteps: r.N(30, 50), Faults: true}
	r.Parallel("waddrmgr", r.N(40, 1000), evid.Workers(), func(i int, cs int64) {
		res := mgr.RunHistory(mcfg, cs, dir)
		mgr.Record(r, res, "waddrmgr", cs, res.Stats["c10-faults-injected"] >= 5)
	})
	r.Parallel("wallet", r.N(12, 300), evid.Workers(), func(i int, cs int64) { walletFaults(r, dir, cs) })
	r.Require("c10-wallet-faults-injected", 300)
	r.Require("c10-wallet-ops-swept", 60)
	r.Require("faults-injected", 2000)
	r.Require("c10-faults-injected", 1000)
	r.Require("c10-ops-swept", 200)
	r.Require("fault@insert-mined:Put", 200)
	r.Require("fault@rollback:Delete", 50)
	os.Exit(r.Finish())
}
