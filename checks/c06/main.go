// C06 — created transactions spend only eligible own coins, once, with valid signatures.
package main

import (
	"errors"
	"fmt"
	"math/rand"
	"os"
	"sort"
	"sync"
	"time"

	"github.com/btcsuite/btcd/btcutil"
	"github.com/btcsuite/btcd/btcutil/hdkeychain"
	"github.com/btcsuite/btcd/btcutil/psbt"
	"github.com/btcsuite/btcd/chaincfg/chainhash"
	"github.com/btcsuite/btcd/txscript"
	"github.com/btcsuite/btcd/wire"
	"github.com/btcsuite/btcwallet/waddrmgr"
	"github.com/btcsuite/btcwallet/wallet"
	"github.com/btcsuite/btcwallet/wtxmgr"

	"verif/internal/evid"
	"verif/internal/oracle"
	"verif/internal/wh"
)

const P = "C06"

type req struct {
	kind     string
	scope    *waddrmgr.KeyScope
	acct     uint32
	minconf  int32
	amt      int64
	rate     btcutil.Amount
	strategy wallet.CoinSelectionStrategy
	sname    string
	picks    []wire.OutPoint
	why      string // for ineligible picks: the reason the ledger gives
}

func (q req) String() string {
	sc := "any"
	if q.scope != nil {
		sc = q.scope.String()
	}
	s := fmt.Sprintf("%s scope=%s acct=%d minconf=%d amt=%d rate=%d strategy=%s", q.kind, sc, q.acct, q.minconf, q.amt, q.rate, q.sname)
	if len(q.picks) > 0 {
		s += fmt.Sprintf(" picks=%v", q.picks)
	}
	if q.why != "" {
		s += " (ledger: " + q.why + ")"
	}
	return s
}

func runWallet(r *evid.Run, dir string, cs int64) {
	rg := rand.New(rand.NewSource(cs))
	f, err := wh.NewFunded(rg, dir, false, 6+rg.Intn(5))
	if err != nil {
		if errors.Is(err, wh.ErrNotSynced) {
			r.Inconclusive("sync watchdog")
			return
		}
		r.Violation("c06:harness-setup", err.Error(), "wallet", cs, nil)
		return
	}
	defer f.Close()
	var log []string
	fail := func(key, what string) {
		lg := log
		if len(lg) > 60 {
			lg = lg[len(lg)-60:]
		}
		var ledger []string
		for _, c := range f.SortedCoins() {
			ledger = append(ledger, fmt.Sprintf("%v val=%d %v/%d h=%d cb=%v spent=%q locked=%v leased=%v", c.Op, c.Out.Value, c.Scope, c.Acct, c.Height, c.Coinbase, c.SpentBy, c.Locked, c.Leased))
		}
		r.Violation(key, what, "wallet", cs, map[string]any{"requests": lg, "ledger": ledger, "tip": f.Tip(), "what": what})
	}
	// locks and leases
	for _, c := range f.SortedCoins() {
		switch rg.Intn(7) {
		case 0:
			f.W.LockOutpoint(c.Op)
			c.Locked = true
		case 1:
			if _, err := f.W.LeaseOutput(wtxmgr.LockID{1}, c.Op, time.Hour); err == nil {
				c.Leased = true
			}
		}
	}
	// half of the wallets also have an imported (watch-only) xpub account in the
	// nested-P2WKH scope (not the taproot scope: without a coin scope the wallet
	// decides "watch-only" from the taproot scope's account of that number, O-15);
	// its number equals that of the KEYED second account of the
	// P2WKH scope (account numbers are per scope).  Requests spending the keyed
	// account may ask for their change in the other scope.
	var changeScope *waddrmgr.KeyScope
	if rg.Intn(2) == 0 {
		sd := make([]byte, 32)
		rg.Read(sd)
		if leg, _, _, err := oracle.AccountKey(sd, 49, 0, 0); err == nil {
			pub := leg.Neuter()
			hd := hdkeychain.NewExtendedKey(f.Params.HDPublicKeyID[:], pub.Pub[:], pub.Chain[:], []byte{1, 2, 3, 4}, 3, oracle.H, false)
			at := waddrmgr.NestedWitnessPubKey
			if props, err := f.W.ImportAccount(fmt.Sprintf("imported-%d", rg.Intn(1e6)), hd, rg.Uint32(), &at); err == nil && props.AccountNumber == f.Acct1 && props.KeyScope == waddrmgr.KeyScopeBIP0049Plus {
				sc := waddrmgr.KeyScopeBIP0049Plus
				changeScope = &sc
			}
		}
	}
	dest, _ := btcutil.NewAddressWitnessPubKeyHash(make([]byte, 20), f.Params)
	dpk, _ := txscript.PayToAddrScript(dest)
	nreq := r.N(30, 120)
	for q := 0; q < nreq; q++ {
		rq := genReq(rg, f)
		if rq.kind == "mine" {
			f.MinePending()
			log = append(log, fmt.Sprintf("mine pending -> tip %d", f.Tip()))
			r.Hit("blocks-mined", 1)
			continue
		}
		if rq.kind == "replace" {
			// A conflicting version B of one of the wallet's own unconfirmed
			// transactions A reaches the network and replaces it in the node's
			// mempool (a fee bump made elsewhere with the same seed): B spends one of
			// A's wallet inputs X and pays the wallet.  The wallet now knows two
			// unconfirmed spenders of X.  When it offers A again the node refuses it,
			// the wallet forgets A -- and X must stay unavailable: B still spends it.
			var a *wire.MsgTx
			var x *wh.Coin
			for _, p := range f.Pending {
				if c, ok := f.Coins[p.TxIn[0].PreviousOutPoint]; ok && c.Height != -1 && c.Out.Value > 20000 {
					a, x = p, c
				}
			}
			own, e := f.W.NewAddress(0, waddrmgr.KeyScopeBIP0084)
			if a == nil || e != nil {
				continue
			}
			f.Chain.Barrier()
			opk, _ := txscript.PayToAddrScript(own)
			b := wire.NewMsgTx(2)
			b.AddTxIn(wire.NewTxIn(&x.Op, nil, nil))
			b.AddTxOut(wire.NewTxOut(x.Out.Value-1500, opk))
			// the node drops A and everything built on it, then relays B
			gone := map[chainhash.Hash]bool{a.TxHash(): true}
			for changed := true; changed; {
				changed = false
				for _, p := range f.Pending {
					if gone[p.TxHash()] {
						continue
					}
					for _, in := range p.TxIn {
						if gone[in.PreviousOutPoint.Hash] {
							gone[p.TxHash()] = true
							changed = true
						}
					}
				}
			}
			for h := range gone {
				f.Chain.Evict(h)
			}
			f.Chain.NotifyTx(b, time.Unix(1700000000, 0))
			f.Chain.Barrier()
			// the wallet re-offers; the node refuses A (its input is spent by B)
			f.W.VerifResendUnminedTxs()
			f.Chain.Barrier()
			for _, p := range append([]*wire.MsgTx{}, f.Pending...) {
				if gone[p.TxHash()] {
					f.Forget(p)
				}
			}
			x.SpentBy = "unconf" // by B
			bop := wire.OutPoint{Hash: b.TxHash(), Index: 0}
			f.Coins[bop] = &wh.Coin{Op: bop, Out: b.TxOut[0], Scope: waddrmgr.KeyScopeBIP0084, Acct: 0, Height: -1}
			log = append(log, fmt.Sprintf("replacement: %s (and %d descendants) replaced in the mempool by %s, which spends %v; wallet re-offered and was refused", a.TxHash().String()[:8], len(gone)-1, b.TxHash().String()[:8], x.Op))
			r.Hit("own-transactions-replaced-by-a-conflicting-spend", 1)
			continue
		}
		if rq.kind == "rebroadcast" {
			// the wallet offers its unconfirmed transactions again (as after a reconnect);
			// the backend answers "already in mempool": nothing may become spendable again
			f.W.VerifResendUnminedTxs()
			f.Chain.Barrier()
			log = append(log, fmt.Sprintf("rebroadcast of %d pending transactions", len(f.Pending)))
			r.Hit("rebroadcasts", 1)
			continue
		}
		outs := []*wire.TxOut{wire.NewTxOut(rq.amt, dpk)}
		var tx, finalized *wire.MsgTx
		var err error
		published := false
		before := ""
		if rq.kind == "create-dry" {
			before = f.Snapshot()
		}
		switch rq.kind {
		case "create-dry":
			var a interface{}
			_ = a
			atx, e := f.W.CreateSimpleTx(rq.scope, rq.acct, outs, rq.minconf, rq.rate, rq.strategy, true)
			err = e
			if e == nil {
				tx = atx.Tx
			}
		case "create":
			var opts []wallet.TxCreateOption
			if changeScope != nil && rq.scope != nil && *rq.scope == waddrmgr.KeyScopeBIP0084 && rq.acct == f.Acct1 {
				// coins of the keyed account, change to the imported account of the
				// same number in another scope: the result is still to be signed
				opts = append(opts, wallet.WithCustomChangeScope(changeScope))
				r.Hit("created-with-change-in-another-scope", 1)
			}
			atx, e := f.W.CreateSimpleTx(rq.scope, rq.acct, outs, rq.minconf, rq.rate, rq.strategy, false, opts...)
			err = e
			if e == nil {
				tx = atx.Tx
			}
		case "send":
			tx, err = f.W.SendOutputs(outs, rq.scope, rq.acct, rq.minconf, rq.rate, rq.strategy, "")
			published = err == nil
		case "send-picked", "send-picked-ineligible":
			tx, err = f.W.SendOutputsWithInput(outs, rq.scope, rq.acct, rq.minconf, rq.rate, rq.strategy, "", rq.picks)
			published = err == nil
		case "fundpsbt":
			pkt, e := psbt.New(nil, outs, 2, 0, nil)
			if e != nil {
				continue
			}
			_, err = f.W.FundPsbt(pkt, rq.scope, rq.minconf, rq.acct, rq.rate, rq.strategy)
			if err == nil {
				tx = pkt.UnsignedTx
				// half of the funded packets are also signed by the wallet and extracted:
				// the result is a wallet-signed transaction like any other
				// (FinalizePsbt signs P2WKH, nested P2WKH and taproot inputs; what it does
				// with a legacy P2PKH input is outside this property, DESIGN O-16)
				legacy := false
				for _, in := range tx.TxIn {
					if c, ok := f.Coins[in.PreviousOutPoint]; ok && c.Scope == waddrmgr.KeyScopeBIP0044 {
						legacy = true
					}
				}
				if !legacy && rg.Intn(2) == 0 {
					if ferr := f.W.FinalizePsbt(rq.scope, rq.acct, pkt); ferr == nil {
						if ftx, xerr := psbt.Extract(pkt); xerr == nil {
							r.Hit("psbt-finalized-and-extracted", 1)
							finalized = ftx
						} else {
							log = append(log, fmt.Sprintf("  extract after FinalizePsbt: %v", xerr))
						}
					} else {
						log = append(log, fmt.Sprintf("  FinalizePsbt: %v", ferr))
					}
				}
			}
		}
		log = append(log, fmt.Sprintf("%v -> err=%v", rq, err))
		r.Hit("requests:"+rq.kind, 1)
		if rq.kind == "send-picked-ineligible" {
			if err == nil {
				fail("c06:ineligible-selection-accepted:"+classOf(rq.why), fmt.Sprintf("explicitly selected input is not eligible (%s) but the transaction was created and published: %v", rq.why, rq))
				return
			}
			r.Hit("ineligible-picks-refused:"+classOf(rq.why), 1)
			continue
		}
		if err != nil {
			r.Hit("requests-failed", 1)
			continue
		}
		r.Hit("transactions-created", 1)
		// every input must be in the oracle's eligible set for this request, once
		seen := map[wire.OutPoint]bool{}
		for _, in := range tx.TxIn {
			c, ok := f.Coins[in.PreviousOutPoint]
			if !ok {
				fail("c06:foreign-input", fmt.Sprintf("%v: input %v is not a wallet coin the ledger knows", rq, in.PreviousOutPoint))
				return
			}
			if seen[c.Op] {
				fail("c06:duplicate-input", fmt.Sprintf("%v: outpoint %v is spent twice by the created transaction (%d inputs)", rq, c.Op, len(tx.TxIn)))
				return
			}
			seen[c.Op] = true
			if why := f.Ineligible(c, rq.scope, rq.acct, rq.minconf); why != "" {
				fail("c06:ineligible-input:"+classOf(why), fmt.Sprintf("%v: input %v is not eligible: %s", rq, c.Op, why))
				return
			}
			r.Hit("inputs-checked", 1)
		}
		if len(rq.picks) > 0 {
			for _, in := range tx.TxIn {
				found := false
				for _, p := range rq.picks {
					if p == in.PreviousOutPoint {
						found = true
					}
				}
				if !found {
					fail("c06:unselected-input", fmt.Sprintf("%v: input %v was not among the explicitly selected ones", rq, in.PreviousOutPoint))
					return
				}
			}
		}
		// requested output present
		found := false
		for _, o := range tx.TxOut {
			if o.Value == rq.amt && string(o.PkScript) == string(dpk) {
				found = true
			}
		}
		if !found {
			fail("c06:requested-output-missing", fmt.Sprintf("%v", rq))
			return
		}
		if rq.kind == "create-dry" {
			if after := f.Snapshot(); after != before {
				fail("c06:dry-run-changed-state", fmt.Sprintf("%v: before %s after %s", rq, before, after))
				return
			}
		}
		if finalized != nil {
			if err := f.VerifyScripts(finalized); err != nil {
				fail("c06:signature-invalid:psbt", fmt.Sprintf("%v: transaction extracted from the packet the wallet funded and finalized: %v", rq, err))
				return
			}
			r.Hit("transactions-script-verified", 1)
		}
		if rq.kind == "send" || rq.kind == "send-picked" || rq.kind == "create" {
			if err := f.VerifyScripts(tx); err != nil {
				fail("c06:signature-invalid", fmt.Sprintf("%v: %v", rq, err))
				return
			}
			r.Hit("transactions-script-verified", 1)
		}
		if published {
			f.ApplyPublished(tx)
			r.Hit("transactions-published", 1)
		}
	}
	// concurrent phase: simultaneous sends must never share an input
	f.MinePending()
	var mu sync.Mutex
	var wg sync.WaitGroup
	used := map[wire.OutPoint]string{}
	var dup string
	var txs []*wire.MsgTx
	for g := 0; g < 8; g++ {
		wg.Add(1)
		go func(g int) {
			defer wg.Done()
			for k := 0; k < 3; k++ {
				tx, err := f.W.SendOutputs([]*wire.TxOut{wire.NewTxOut(int64(20000+1000*g+k), dpk)}, nil, 0, 0, 2000, wallet.CoinSelectionLargest, "")
				if err != nil {
					continue
				}
				mu.Lock()
				txs = append(txs, tx)
				for _, in := range tx.TxIn {
					if prev, ok := used[in.PreviousOutPoint]; ok {
						dup = fmt.Sprintf("outpoint %v is spent by %s and by %s, both published", in.PreviousOutPoint, prev, tx.TxHash().String()[:8])
					}
					used[in.PreviousOutPoint] = tx.TxHash().String()[:8]
				}
				mu.Unlock()
			}
		}(g)
	}
	wg.Wait()
	if dup != "" {
		fail("c06:concurrent-double-spend", dup)
		return
	}
	r.Hit("concurrent-sends", len(txs))
	r.Hit("wallets", 1)
	r.Case(fmt.Sprint(cs, len(log)), true)
	if r.WantSample() && len(log) > 5 {
		n := len(log)
		if n > 20 {
			n = 20
		}
		r.Sample(map[string]any{"case_seed": cs, "requests": log[:n]})
	}
}

func classOf(why string) string {
	for _, k := range []string{"wrong account", "wrong key scope", "already spent", "locked", "leased", "confirmations <", "immature coinbase"} {
		if len(why) >= len(k) && contains(why, k) {
			return map[string]string{"wrong account": "wrong-account", "wrong key scope": "wrong-scope", "already spent": "already-spent", "locked": "locked", "leased": "leased", "confirmations <": "too-few-confirmations", "immature coinbase": "immature-coinbase"}[k]
		}
	}
	return "other"
}

func contains(s, sub string) bool {
	for i := 0; i+len(sub) <= len(s); i++ {
		if s[i:i+len(sub)] == sub {
			return true
		}
	}
	return false
}

func genReq(rg *rand.Rand, f *wh.Funded) req {
	var q req
	if rg.Intn(12) == 0 {
		return req{kind: "mine"}
	}
	if rg.Intn(14) == 0 {
		return req{kind: "rebroadcast"}
	}
	if len(f.Pending) > 0 && rg.Intn(12) == 0 {
		return req{kind: "replace"}
	}
	if rg.Intn(3) != 0 {
		s := wh.FundScopes[rg.Intn(4)]
		q.scope = &s
	}
	if rg.Intn(4) == 0 {
		q.acct = f.Acct1
		if rg.Intn(2) == 0 {
			s := waddrmgr.KeyScopeBIP0084
			q.scope = &s
		}
	}
	q.minconf = int32(rg.Intn(4))
	if rg.Intn(4) == 0 {
		// above the coinbase maturity: a mature coinbase may still be too shallow
		q.minconf = f.Maturity + int32(rg.Intn(5))
	}
	q.rate = btcutil.Amount([]int{1000, 2000, 5000}[rg.Intn(3)])
	q.strategy, q.sname = wallet.CoinSelectionLargest, "largest"
	if rg.Intn(2) == 0 {
		q.strategy, q.sname = wallet.CoinSelectionRandom, "random"
	}
	q.kind = []string{"create-dry", "create", "send", "send", "send-picked", "send-picked-ineligible", "fundpsbt"}[rg.Intn(7)]
	// half of the deliberately ineligible picks aim at one reason: a coin that is
	// locked / leased / already spent is requested from ITS OWN scope and account,
	// so that this, and not a scope or account mismatch, is what makes it ineligible
	var aimed *wh.Coin
	if q.kind == "send-picked-ineligible" && rg.Intn(2) == 0 {
		want := rg.Intn(3)
		for _, c := range f.SortedCoins() {
			if c.Height == -1 {
				continue
			}
			if (want == 0 && c.Locked && c.SpentBy == "") || (want == 1 && c.Leased && c.SpentBy == "" && !c.Locked) || (want == 2 && c.SpentBy != "") {
				aimed = c
			}
		}
		if aimed != nil {
			sc := aimed.Scope
			q.scope, q.acct, q.minconf = &sc, aimed.Acct, 0
		}
	}
	// eligible coins for this request per the ledger, largest first
	var elig, inelig []*wh.Coin
	for _, c := range f.SortedCoins() {
		if f.Ineligible(c, q.scope, q.acct, q.minconf) == "" {
			elig = append(elig, c)
		} else {
			inelig = append(inelig, c)
		}
	}
	sort.SliceStable(elig, func(i, j int) bool { return elig[i].Out.Value > elig[j].Out.Value })
	q.amt = int64(20000 + rg.Intn(300000))
	if len(elig) > 0 && rg.Intn(2) == 0 {
		// boundary: the k largest coins cover the amount plus roughly the fee of a
		// one-input transaction, but not the fee of the transaction they form
		k := 1 + rg.Intn(min(3, len(elig)))
		var sum int64
		for _, c := range elig[:k] {
			sum += c.Out.Value
		}
		d := []int64{110, 141, 150, 180, 208, 220, 260, 300, 420, 700, 1100}[rg.Intn(11)] * int64(q.rate) / 1000
		if sum-d > 1000 {
			q.amt = sum - d
		}
	}
	switch q.kind {
	case "send-picked":
		if len(elig) == 0 {
			q.kind = "send"
			break
		}
		n := 1 + rg.Intn(min(3, len(elig)))
		var sum int64
		for _, i := range rg.Perm(len(elig))[:n] {
			q.picks = append(q.picks, elig[i].Op)
			sum += elig[i].Out.Value
		}
		if q.amt > sum-2000 {
			q.amt = sum / 2
		}
		if q.amt < 1000 {
			q.amt = 1000
		}
	case "send-picked-ineligible":
		if len(inelig) == 0 {
			q.kind = "send"
			break
		}
		bad := inelig[rg.Intn(len(inelig))]
		if aimed != nil && f.Ineligible(aimed, q.scope, q.acct, q.minconf) != "" {
			bad = aimed
		}
		q.why = f.Ineligible(bad, q.scope, q.acct, q.minconf)
		q.picks = append(q.picks, bad.Op)
		if len(elig) > 0 && rg.Intn(2) == 0 {
			q.picks = append(q.picks, elig[rg.Intn(len(elig))].Op) // mixed with an eligible one
		}
		q.amt = bad.Out.Value / 3
		if q.amt < 1000 {
			q.amt = 1000
		}
	}
	return q
}

func min(a, b int) int {
	if a < b {
		return a
	}
	return b
}

func main() {
	r := evid.New(P, "exploration")
	r.Rule("complete wallets funded over the fake backend on all four address types and two accounts via confirmed, unconfirmed, coinbase (immature by 0..many blocks) and reorged-out receipts, with random LockOutpoint / LeaseOutput; then 30..120 requests per wallet mixing CreateSimpleTx (dry run and real), SendOutputs, SendOutputsWithInput with eligible picks and with a deliberately INELIGIBLE pick of each kind (wrong account, wrong scope, already spent, locked, leased, too few confirmations, immature coinbase), FundPsbt without inputs, both strategies, minconf 0..3 and (1 in 4) coinbase maturity + 0..4, three fee rates, amounts random or placed so that the k largest eligible coins cover amount + first fee guess but not the real fee (forces re-selection), interleaved with mining of the published transactions and with rebroadcast passes of the still-unconfirmed ones (backend answers 'already in mempool'), and with REPLACEMENTS: a conflicting version of one of the wallet's unconfirmed transactions (spending one of its inputs, paying the wallet) replaces it in the node's mempool, the wallet re-offers the original and is refused; the shared input must stay unavailable. Oracle = harness ledger of everything it delivered and everything the wallet published: every input must be eligible for that request at that moment, no input twice, requested output present, explicit selections respected / ineligible ones refused, dry runs leave the money state unchanged, every input of a signed result executes in a fresh txscript engine with StandardVerifyFlags against prevouts from the ledger. Final concurrent phase: 8 goroutines x 3 sends; the published transactions must not share an input. Non-trivial = wallet that produced at least one transaction; distinct = distinct wallets.")
	r.Trusted("txscript.Engine (StandardVerifyFlags)", "waddrmgr.AddrAccount to classify change outputs", "internal/fakechain")
	r.Assume("FundPsbt with caller-supplied inputs is the documented external-coin-selection path and is not asserted here", "coin eligibility uses the backend tip as the current height, as the wallet does")
	dir := r.TempDir("c06")
	defer os.RemoveAll(dir)
	r.Parallel("wallet", r.N(24, 600), evid.Workers(), func(i int, cs int64) { runWallet(r, dir, cs) })
	r.Require("transactions-created", 150)
	r.Require("transactions-script-verified", 80)
	r.Require("inputs-checked", 200)
	r.Require("created-with-change-in-another-scope", 1)
	r.Require("psbt-finalized-and-extracted", 3)
	r.Require("ineligible-picks-refused:locked", 2)
	r.Require("ineligible-picks-refused:leased", 2)
	r.Require("ineligible-picks-refused:already-spent", 2)
	r.Require("ineligible-picks-refused:wrong-account", 2)
	r.Require("ineligible-picks-refused:wrong-scope", 2)
	r.Require("concurrent-sends", 50)
	os.Exit(r.Finish())
}
