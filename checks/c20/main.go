// C20 — a rejected broadcast leaves no trace; unconfirmed sends are re-offered.
package main

import (
	"errors"
	"fmt"
	"math/rand"
	"os"
	"runtime"
	"sort"
	"strings"
	"sync"
	"sync/atomic"
	"time"

	"github.com/btcsuite/btcd/btcutil"
	"github.com/btcsuite/btcd/chaincfg/chainhash"
	"github.com/btcsuite/btcd/txscript"
	"github.com/btcsuite/btcd/wire"
	"github.com/btcsuite/btcwallet/chain"
	"github.com/btcsuite/btcwallet/waddrmgr"
	"github.com/btcsuite/btcwallet/wallet"
	"github.com/btcsuite/btcwallet/walletdb"
	"github.com/btcsuite/btcwallet/wtxmgr"

	"verif/internal/evid"
	"verif/internal/wh"
)

const P = "C20"

var classes = []string{"accepted", "already-in-mempool", "already-known", "already-confirmed", "rejected-generic", "rejected-insufficient-fee", "rejected-mempool-conflict", "rejected-any-node-reason", "rejected-btcd-text", "subscription-failure-1", "subscription-failure-2"}

// every rejection reason a node can give (chain.RPCErr), except the three
// answers that mean the node has the transaction
var nodeReasons = func() []error {
	var out []error
	for e := chain.ErrMissingInputsOrSpent; e <= chain.ErrNonMandatoryScriptVerifyFlag; e++ {
		if e == chain.ErrTxAlreadyKnown || e == chain.ErrTxAlreadyConfirmed || e == chain.ErrTxAlreadyInMempool {
			continue
		}
		out = append(out, e)
	}
	return out
}()
var reasonCtr int64

// literal texts with which a btcd node (and neutrino, which relays btcd's
// answers) REFUSES a transaction; each reaches the wallet through the real
// error mapping of the chain package (chain.NeutrinoClient.MapRPCErr).  That the
// node does not have the transaction after any of them is btcd's behaviour, not
// something read off the mapping under test.
var btcdRefusals = []string{
	"output 7d3c...:1 already spent in mempool: output already spent in mempool",
	"orphan transaction 5c1e... references outputs of unknown or fully-spent transaction",
	"transaction 9a0b... has 120 fees which is under the required amount of 250",
	"output 11aa...:0 already spent by transaction 22bb... in the memory pool",
	"replacement transaction 33cc... has an insufficient fee rate: needs more than 5, has 2",
	"transaction 44dd... has insufficient priority (1200 <= 57600000)",
}

func answerFor(class string) error {
	switch class {
	case "already-in-mempool":
		return chain.ErrTxAlreadyInMempool
	case "already-known":
		return chain.ErrTxAlreadyKnown
	case "already-confirmed":
		return chain.ErrTxAlreadyConfirmed
	case "rejected-generic":
		return errors.New("backend: transaction rejected: non-mandatory-script-verify-flag")
	case "rejected-insufficient-fee":
		return chain.ErrInsufficientFee
	case "rejected-mempool-conflict":
		return chain.ErrMempoolConflict
	case "rejected-any-node-reason":
		return nodeReasons[int(atomic.AddInt64(&reasonCtr, 1))%len(nodeReasons)]
	case "rejected-btcd-text":
		return fmt.Errorf("-26: TX rejected: %s", btcdRefusals[int(atomic.AddInt64(&reasonCtr, 1))%len(btcdRefusals)])
	}
	return nil
}

func unminedSet(f *wh.Funded) map[chainhash.Hash]bool {
	m := map[chainhash.Hash]bool{}
	walletdb.View(f.DB, func(tx walletdb.ReadTx) error {
		hs, _ := f.W.TxStore.UnminedTxHashes(tx.ReadBucket(wh.TxNS))
		for _, h := range hs {
			m[*h] = true
		}
		return nil
	})
	return m
}

func unspentSet(f *wh.Funded) map[wire.OutPoint]btcutil.Amount {
	m := map[wire.OutPoint]btcutil.Amount{}
	us, _ := f.W.ListUnspent(0, 1<<30, "")
	for _, u := range us {
		h, _ := chainhash.NewHashFromStr(u.TxID)
		a, _ := btcutil.NewAmount(u.Amount)
		m[wire.OutPoint{Hash: *h, Index: u.Vout}] = a
	}
	return m
}

// resendRunning reports whether a goroutine is inside the wallet's rebroadcast.
func resendRunning(w *wallet.Wallet) bool {
	buf := make([]byte, 4<<20)
	n := runtime.Stack(buf, true)
	s := string(buf[:n])
	// frames carry the receiver: (*Wallet).resendUnminedTxs(0xc000...)
	return strings.Contains(s, fmt.Sprintf("resendUnminedTxs(%p", w))
}

func runWallet(r *evid.Run, dir string, idx int, cs int64) {
	rg := rand.New(rand.NewSource(cs))
	f, err := wh.NewFunded(rg, dir, false, 5+rg.Intn(4))
	if err != nil {
		if errors.Is(err, wh.ErrNotSynced) {
			r.Inconclusive("sync watchdog")
			return
		}
		r.Violation("c20:harness-setup", err.Error(), "wallet", cs, nil)
		return
	}
	defer f.Close()
	f.MinePending() // confirm the unconfirmed receipts so that there is money at 1 conf
	var log []string
	fail := func(key, what string) {
		lg := log
		if len(lg) > 60 {
			lg = lg[len(lg)-60:]
		}
		r.Violation(key, what, "wallet", cs, map[string]any{"attempts": lg, "what": what})
	}
	dest, _ := btcutil.NewAddressWitnessPubKeyHash(make([]byte, 20), f.Params)
	dpk, _ := txscript.PayToAddrScript(dest)
	ch := f.Chain
	// wallet transactions the ledger believes are still unconfirmed, in publish order
	isDesc := func(tx *wire.MsgTx, anc map[chainhash.Hash]bool) bool {
		for _, in := range tx.TxIn {
			if anc[in.PreviousOutPoint.Hash] {
				return true
			}
		}
		return false
	}
	// unconfirmed harness transactions that spend a NON-credited output of a wallet
	// transaction and pay the wallet back (a payee's refund): descendants the wallet
	// can only find through the spent outpoint, not through one of its own credits
	var refunds []*wire.MsgTx
	allUnconf := func() []*wire.MsgTx { return append(append([]*wire.MsgTx{}, f.Pending...), refunds...) }
	dropRefund := func(h chainhash.Hash) {
		for i, t := range refunds {
			if t.TxHash() == h {
				refunds = append(refunds[:i], refunds[i+1:]...)
				delete(f.Coins, wire.OutPoint{Hash: h, Index: 0})
				ch.Evict(h)
				return
			}
		}
	}
	nAttempts := r.N(14, 30)
	for a := 0; a < nAttempts; a++ {
		class := classes[(idx+a*4+rg.Intn(2))%len(classes)]
		// what to broadcast: a fresh send, a chained child (spends a pending tx's change at minconf 0),
		// or a re-publish of an already recorded parent that has unconfirmed descendants
		mode := []string{"send", "send", "chained-send", "create+publish", "republish-parent", "send-to-self", "sweep-two-outputs"}[rg.Intn(7)]
		// two unspent wallet outputs (a payment to self and its change) of one pending transaction
		var pair []*wh.Coin
		{
			byParent := map[chainhash.Hash][]*wh.Coin{}
			for _, c := range f.SortedCoins() {
				if c.Change && c.Height == -1 && c.SpentBy == "" && c.Scope == waddrmgr.KeyScopeBIP0086 && c.Acct == 0 {
					byParent[c.Op.Hash] = append(byParent[c.Op.Hash], c)
				}
			}
			for _, p := range f.Pending {
				if cs := byParent[p.TxHash()]; len(cs) >= 2 && cs[0].Out.Value+cs[1].Out.Value > 30000 {
					pair = cs[:2]
				}
			}
		}
		if mode == "sweep-two-outputs" && pair == nil {
			mode = "send-to-self"
		}
		if mode == "sweep-two-outputs" && rg.Intn(3) != 0 {
			class = "accepted" // the shape matters for the re-offer pass that follows
		}
		var changeOps []wire.OutPoint
		for _, c := range f.SortedCoins() {
			if c.Change && c.Height == -1 && c.SpentBy == "" {
				changeOps = append(changeOps, c.Op)
			}
		}
		if mode == "chained-send" && len(changeOps) == 0 {
			mode = "send"
		}
		var parent *wire.MsgTx
		if mode == "republish-parent" {
			// a pending tx with a pending child
			for _, p := range f.Pending {
				ph := p.TxHash()
				for _, c := range allUnconf() {
					if isDesc(c, map[chainhash.Hash]bool{ph: true}) {
						parent = p
					}
				}
			}
			if parent == nil {
				mode = "send"
			} else if strings.HasPrefix(class, "subscription") || class == "accepted" {
				class = "rejected-generic"
			}
		}
		// the wallet's own destination address is issued (and subscribed) before the
		// attempt proper starts
		var ownPk []byte
		if mode == "send-to-self" {
			if own, e := f.W.NewAddress(0, waddrmgr.KeyScopeBIP0086); e == nil {
				ownPk, _ = txscript.PayToAddrScript(own)
				ch.Barrier()
			} else {
				mode = "send"
			}
		}
		before := f.Snapshot()
		beforeUnmined := unminedSet(f)
		base := ch.NotifyCalls()
		sent0 := len(ch.SentTxs())
		ans := answerFor(class)
		ch.SendHook = func(tx *wire.MsgTx) error { return ans }
		ch.MapErr = nil
		if class == "rejected-btcd-text" {
			ch.MapErr = (&chain.NeutrinoClient{}).MapRPCErr
		}
		ch.NotifyHook = nil
		if strings.HasPrefix(class, "subscription-failure") {
			k := 1
			if strings.HasSuffix(class, "2") {
				k = 2
			}
			ch.NotifyHook = func(call int, _ []btcutil.Address) error {
				if call == base+k {
					return errors.New("backend: subscription failed")
				}
				return nil
			}
		}
		amt := int64(15000 + rg.Intn(60000))
		outs := []*wire.TxOut{wire.NewTxOut(amt, dpk)}
		var tx *wire.MsgTx
		var sendErr error
		var leased *wire.OutPoint
		switch mode {
		case "send":
			tx, sendErr = f.W.SendOutputs(outs, nil, 0, 1, 2000, wallet.CoinSelectionLargest, "")
		case "send-to-self":
			outs[0] = wire.NewTxOut(int64(30000+rg.Intn(30000)), ownPk)
			tx, sendErr = f.W.SendOutputs(outs, nil, 0, 1, 2000, wallet.CoinSelectionLargest, "")
		case "sweep-two-outputs":
			// a child with TWO inputs from the same unconfirmed parent
			sc := waddrmgr.KeyScopeBIP0086
			outs[0].Value = (pair[0].Out.Value + pair[1].Out.Value) / 3
			tx, sendErr = f.W.SendOutputsWithInput(outs, &sc, 0, 0, 2000, wallet.CoinSelectionLargest, "", []wire.OutPoint{pair[0].Op, pair[1].Op})
		case "chained-send":
			op := changeOps[rg.Intn(len(changeOps))]
			c := f.Coins[op]
			if c.Out.Value < 20000 {
				ch.SendHook, ch.NotifyHook = nil, nil
				continue
			}
			sc := c.Scope
			outs[0].Value = c.Out.Value / 3
			tx, sendErr = f.W.SendOutputsWithInput(outs, &sc, c.Acct, 0, 2000, wallet.CoinSelectionLargest, "", []wire.OutPoint{op})
		case "create+publish":
			atx, e := f.W.CreateSimpleTx(nil, 0, outs, 1, 2000, wallet.CoinSelectionLargest, false)
			if e != nil {
				ch.SendHook, ch.NotifyHook = nil, nil
				log = append(log, fmt.Sprintf("create failed: %v", e))
				continue
			}
			tx = atx.Tx
			// the change address subscription happened during creation; count from here
			base2 := ch.NotifyCalls()
			if ch.NotifyHook != nil {
				k := 1
				ch.NotifyHook = func(call int, _ []btcutil.Address) error {
					if call == base2+k {
						return errors.New("backend: subscription failed")
					}
					return nil
				}
			}
			// half of the time one of its inputs is under a lease by then (taken by
			// whoever asked for the transaction): a refused broadcast must leave the
			// lease where it was
			if rg.Intn(2) == 0 {
				op := tx.TxIn[rg.Intn(len(tx.TxIn))].PreviousOutPoint
				if _, e := f.W.LeaseOutput(wtxmgr.LockID{7}, op, time.Hour); e == nil {
					leased = &op
					r.Hit("attempts-spending-a-leased-input", 1)
				}
			}
			before = f.Snapshot()
			beforeUnmined = unminedSet(f)
			sendErr = f.W.PublishTransaction(tx, "")
		case "republish-parent":
			tx = parent
			sendErr = f.W.PublishTransaction(parent, "")
		}
		ch.SendHook, ch.NotifyHook, ch.MapErr = nil, nil, nil
		ch.Barrier()
		after := f.Snapshot()
		if leased != nil {
			f.W.ReleaseOutput(wtxmgr.LockID{7}, *leased) // judged from the snapshot; the history goes on without it
		}
		offered := len(ch.SentTxs()) - sent0
		log = append(log, fmt.Sprintf("%s answered %q -> err=%v (offered to backend %d times)", mode, class, sendErr, offered))
		r.Hit("attempts:"+class, 1)
		r.Hit("mode:"+mode, 1)
		wantErr := strings.HasPrefix(class, "rejected") || strings.HasPrefix(class, "subscription")
		if mode != "republish-parent" && sendErr != nil && !wantErr {
			// creation itself may fail (insufficient funds ...): nothing was broadcast
			if offered == 0 {
				if after != before {
					fail("c20:failed-creation-changed-state", fmt.Sprintf("%s failed before any broadcast (%v) but the state changed: before %s after %s", mode, sendErr, before, after))
					return
				}
				continue
			}
			fail("c20:accepted-broadcast-reported-error:"+class, fmt.Sprintf("%s: backend answered %q but the wallet returned %v", mode, class, sendErr))
			return
		}
		switch {
		case wantErr && mode != "republish-parent":
			if sendErr == nil {
				fail("c20:failed-broadcast-reported-success:"+class, fmt.Sprintf("%s: backend answer %q but no error was returned", mode, class))
				return
			}
			if after != before {
				key := "c20:state-not-restored:" + class
				if strings.HasPrefix(class, "subscription") {
					key = "c20:state-not-restored:subscription-failure"
				}
				fail(key, fmt.Sprintf("%s failed (%q, err=%v) but balance / spendable set / unconfirmed set differ from before the attempt:\n before %s\n after  %s", mode, class, sendErr, before, after))
				return
			}
			r.Hit("failed-broadcasts-left-no-trace", 1)
		case mode == "republish-parent":
			// rejected: the parent and every unconfirmed descendant are forgotten
			if sendErr == nil && strings.HasPrefix(class, "rejected") {
				fail("c20:failed-broadcast-reported-success:"+class, "re-publish of a recorded transaction was rejected but no error returned")
				return
			}
			if strings.HasPrefix(class, "rejected") {
				gone := map[chainhash.Hash]bool{parent.TxHash(): true}
				for changed := true; changed; {
					changed = false
					for _, p := range allUnconf() {
						if !gone[p.TxHash()] && isDesc(p, gone) {
							gone[p.TxHash()] = true
							changed = true
						}
					}
				}
				um := unminedSet(f)
				us := unspentSet(f)
				for h := range gone {
					if um[h] {
						fail("c20:rejected-tx-or-descendant-still-recorded", fmt.Sprintf("after the re-broadcast of %v was rejected, %v (itself or an unconfirmed descendant) is still recorded", parent.TxHash(), h))
						return
					}
				}
				// the coins the parent spent are spendable again
				for _, in := range parent.TxIn {
					if c, ok := f.Coins[in.PreviousOutPoint]; ok && c.Height != -1 {
						if _, ok := us[in.PreviousOutPoint]; !ok {
							fail("c20:coins-not-released", fmt.Sprintf("input %v of the rejected transaction is still not spendable", in.PreviousOutPoint))
							return
						}
					}
				}
				for _, p := range append([]*wire.MsgTx{}, f.Pending...) {
					if gone[p.TxHash()] {
						ch.Evict(p.TxHash())
						f.Forget(p)
					}
				}
				for _, t := range append([]*wire.MsgTx{}, refunds...) {
					if gone[t.TxHash()] {
						dropRefund(t.TxHash())
						r.Hit("rejected-republish-removed-refund-children", 1)
					}
				}
				r.Hit("rejected-republish-removed-descendants", len(gone)-1)
			} else {
				// already known / confirmed (a claim of this harness's backend that no
				// block will ever back up): the wallet drops the transaction and waits
				// for the block.  Only "no error" is asserted; the ledger and the fake
				// mempool follow whatever the wallet no longer records.
				um := unminedSet(f)
				for _, p := range append([]*wire.MsgTx{}, f.Pending...) {
					if !um[p.TxHash()] {
						ch.Evict(p.TxHash())
						f.Forget(p)
					}
				}
				for _, t := range append([]*wire.MsgTx{}, refunds...) {
					if !um[t.TxHash()] {
						dropRefund(t.TxHash())
					}
				}
			}
		default:
			// accepted / already in mempool: recorded exactly once, inputs unspendable, change counted once
			if class == "accepted" || class == "already-in-mempool" {
				um := unminedSet(f)
				h := tx.TxHash()
				if !um[h] {
					fail("c20:accepted-tx-not-recorded:"+class, fmt.Sprintf("%s answered %q: the transaction is not recorded as unconfirmed", mode, class))
					return
				}
				if len(um) != len(beforeUnmined)+1 {
					fail("c20:accepted-tx-not-recorded-once:"+class, fmt.Sprintf("unconfirmed set grew from %d to %d", len(beforeUnmined), len(um)))
					return
				}
				us := unspentSet(f)
				for _, in := range tx.TxIn {
					if _, ok := us[in.PreviousOutPoint]; ok {
						fail("c20:spent-input-still-spendable:"+class, fmt.Sprintf("input %v of the published transaction is still listed as spendable", in.PreviousOutPoint))
						return
					}
				}
				f.ApplyPublished(tx)
				// change counted once
				for op, c := range f.Coins {
					if op.Hash == h && c.Change {
						if got, ok := us[op]; !ok || got != btcutil.Amount(c.Out.Value) {
							fail("c20:change-not-counted-once:"+class, fmt.Sprintf("change output %v (%d) is not listed once as spendable (got %v)", op, c.Out.Value, got))
							return
						}
					}
				}
				r.Hit("accepted-broadcasts-recorded", 1)
				if rg.Intn(3) == 0 && mode != "republish-parent" {
					// the payee refunds part of the payment from the (non-credited) payment output
					for i, o := range tx.TxOut {
						if string(o.PkScript) != string(dpk) {
							continue
						}
						ra, err := f.W.NewAddress(0, waddrmgr.KeyScopeBIP0084)
						if err != nil {
							break
						}
						rpk, _ := txscript.PayToAddrScript(ra)
						rt := wire.NewMsgTx(2)
						rt.AddTxIn(wire.NewTxIn(&wire.OutPoint{Hash: h, Index: uint32(i)}, nil, nil))
						rt.AddTxOut(wire.NewTxOut(o.Value-1500, rpk))
						if ch.NotifyTx(rt, time.Unix(1700000000, 0)) {
							ch.Barrier()
							refunds = append(refunds, rt)
							f.Coins[wire.OutPoint{Hash: rt.TxHash(), Index: 0}] = &wh.Coin{Op: wire.OutPoint{Hash: rt.TxHash(), Index: 0}, Out: rt.TxOut[0], Scope: waddrmgr.KeyScopeBIP0084, Acct: 0, Height: -1}
							log = append(log, fmt.Sprintf("payee refunds %d from the payment output of %s (unconfirmed child through a non-credited output)", o.Value-1500, h.String()[:8]))
							r.Hit("refund-children-created", 1)
						}
						break
					}
				}
			} else {
				// already known / confirmed: no error; the wallet expects the block notification.
				// Keep the ledger in step with whatever the wallet did.
				if unminedSet(f)[tx.TxHash()] {
					f.ApplyPublished(tx)
				}
			}
		}
		// ---- re-offer (synchronous hook) ----
		// always right after a child with two inputs from one unconfirmed parent was
		// accepted: that shape must be part of a pass while it is still unconfirmed
		if rg.Intn(3) == 0 || (mode == "sweep-two-outputs" && sendErr == nil && tx != nil && unminedSet(f)[tx.TxHash()]) {
			if !reoffer(r, f, rg, &log, fail) {
				return
			}
		}
		// ---- two resynchronisations of the running wallet in quick succession: the
		// second finishes while the pass started for the first is still handing over
		if rg.Intn(7) == 0 {
			if !overlappingResyncs(r, f, &log, fail) {
				return
			}
		}
		if rg.Intn(6) == 0 {
			f.MinePending()
			refunds = nil
			log = append(log, "mined pending")
		}
		if rg.Intn(8) == 0 {
			// restart: after the resync the production trigger re-offers in a detached goroutine
			want := unminedSet(f)
			f.Stop()
			// half of the time a block arrives right behind the resynchronisation (the
			// backend is one block ahead of where the rescan finished when the wallet
			// gets to handle its end): the re-offer is still due
			var blockDelivered chan struct{}
			if rg.Intn(2) == 0 {
				done := make(chan struct{})
				blockDelivered = done
				ch.AfterRescan = func() {
					defer close(done)
					ch.AfterRescan = nil
					ch.Extend()
					ch.NotifyConnect(int(ch.Height()))
				}
				r.Hit("restarts-with-a-block-right-behind-the-resync", 1)
			}
			if err := f.Open(f.Window, true); err != nil {
				if errors.Is(err, wh.ErrNotSynced) {
					r.Inconclusive("resync watchdog")
					return
				}
				fail("c20:reopen", err.Error())
				return
			}
			// the block behind the resync has been delivered and taken in by the wallet
			// before anything else is judged (it may mature a coinbase)
			if blockDelivered != nil {
				select {
				case <-blockDelivered:
				case <-time.After(60 * time.Second):
					r.Inconclusive("the block behind the resynchronisation was not delivered within 60 s")
					return
				}
				ch.Barrier()
			}
			// The production trigger runs in a detached goroutine some time after
			// RescanFinished. Poll until every wanted transaction has been offered;
			// "not offered" is concluded only after 20 s without the rebroadcast
			// goroutine being present (state), never from a short delay.
			missing := func() *chainhash.Hash {
				sent := map[chainhash.Hash]bool{}
				for _, t := range ch.SentTxs()[sent0:] {
					sent[t.TxHash()] = true
				}
				for h := range want {
					if !sent[h] {
						h := h
						return &h
					}
				}
				return nil
			}
			idle := 0
			for idle < 20000 && missing() != nil {
				time.Sleep(time.Millisecond)
				if resendRunning(f.W) {
					idle = 0
				} else {
					idle++
				}
			}
			if m := missing(); m != nil {
				fail("c20:not-reoffered-after-resync", fmt.Sprintf("unconfirmed wallet transaction %v was not offered to the backend after the restart's resynchronisation (no rebroadcast goroutine present for 20 s)", m))
				return
			}
			// let the pass finish before the next attempt changes answer policies
			for i := 0; i < 20000 && resendRunning(f.W); i++ {
				time.Sleep(time.Millisecond)
			}
			log = append(log, fmt.Sprintf("restart: %d unconfirmed transactions re-offered", len(want)))
			r.Hit("restarts-with-reoffer-checked", 1)
			r.Hit("reoffered-after-restart", len(want))
		}
	}
	// ---- no backend attached (connection down / not yet synchronised): the
	// hand-over cannot even start; an error must be returned and nothing recorded
	if rg.Intn(2) == 0 {
		outs := []*wire.TxOut{wire.NewTxOut(int64(15000+rg.Intn(40000)), dpk)}
		atx, e := f.W.CreateSimpleTx(nil, 0, outs, 1, 2000, wallet.CoinSelectionLargest, false)
		if e == nil {
			f.Stop()
			if err := f.OpenOffline(true); err != nil {
				fail("c20:reopen-offline", err.Error())
				return
			}
			before := f.Snapshot()
			sent0 := len(ch.SentTxs())
			perr := f.W.PublishTransaction(atx.Tx, "")
			after := f.Snapshot()
			log = append(log, fmt.Sprintf("publish with no backend attached -> err=%v", perr))
			r.Hit("attempts:no-backend-attached", 1)
			switch {
			case len(ch.SentTxs()) != sent0:
				fail("c20:harness-backend-reached", "the detached backend received a transaction")
				return
			case perr == nil:
				fail("c20:failed-broadcast-reported-success:no-backend-attached", "PublishTransaction returned nil although no backend is attached")
				return
			case after != before:
				fail("c20:state-not-restored:no-backend-attached", fmt.Sprintf("PublishTransaction failed (%v, no backend attached) but balance / spendable set / unconfirmed set differ from before the attempt:\n before %s\n after  %s", perr, before, after))
				return
			}
			r.Hit("failed-broadcasts-left-no-trace", 1)
		}
	}
	r.Hit("wallets", 1)
	r.Case(fmt.Sprint(cs, log), true)
	if r.WantSample() && len(log) > 4 {
		n := len(log)
		if n > 16 {
			n = 16
		}
		r.Sample(map[string]any{"case_seed": cs, "attempts": log[:n]})
	}
}

// overlappingResyncs requests two rescans of the running wallet (the production
// path: rescan manager -> RescanFinished -> detached rebroadcast pass).  The
// backend holds its answer to the first hand-over of the first pass until the
// second rescan has finished; every answer is "already in mempool", which leaves
// wallet and node unchanged.  Each unconfirmed transaction must be handed over at
// least once after the second resynchronisation finished.
func overlappingResyncs(r *evid.Run, f *wh.Funded, log *[]string, fail func(string, string)) bool {
	want := unminedSet(f)
	if len(want) == 0 {
		return true
	}
	strs, err := f.W.SortedActivePaymentAddresses()
	if err != nil || len(strs) == 0 {
		return true
	}
	own, err := btcutil.DecodeAddress(strs[0], f.W.ChainParams())
	if err != nil {
		return true
	}
	ch := f.Chain
	var mu sync.Mutex
	phase, rescans, first := 1, 0, true
	var heldTx chainhash.Hash
	afterSecond := map[chainhash.Hash]bool{}
	entered, release := make(chan struct{}), make(chan struct{})
	ch.SendHook = func(tx *wire.MsgTx) error {
		mu.Lock()
		isFirst := first
		first = false
		if isFirst {
			heldTx = tx.TxHash()
		}
		if phase == 2 {
			afterSecond[tx.TxHash()] = true
		}
		mu.Unlock()
		if isFirst {
			close(entered)
			select {
			case <-release:
			case <-time.After(120 * time.Second):
			}
		}
		return chain.ErrTxAlreadyInMempool
	}
	// DuringRescan runs before the RescanFinished of that rescan is emitted; the only
	// pass that exists then is blocked in the held hand-over, so every hand-over
	// stamped phase 2 started after the second resynchronisation finished
	ch.DuringRescan = func() {
		mu.Lock()
		rescans++
		if rescans == 2 {
			phase = 2
		}
		mu.Unlock()
	}
	restore := func() {
		ch.SendHook, ch.DuringRescan = nil, nil
		for i := 0; i < 20000 && resendRunning(f.W); i++ {
			time.Sleep(time.Millisecond)
		}
	}
	released := false
	defer func() {
		if !released {
			close(release)
		}
		restore()
	}()
	missing := func() *chainhash.Hash {
		mu.Lock()
		defer mu.Unlock()
		for h := range want {
			if !afterSecond[h] {
				h := h
				return &h
			}
		}
		return nil
	}
	if err := f.W.Rescan([]btcutil.Address{own}, nil); err != nil {
		fail("c20:harness-rescan", err.Error())
		return false
	}
	idle := 0
wait1:
	for idle < 20000 {
		select {
		case <-entered:
			break wait1
		case <-time.After(time.Millisecond):
		}
		if resendRunning(f.W) {
			idle = 0
		} else {
			idle++
		}
	}
	if idle >= 20000 {
		fail("c20:not-reoffered-after-resync", fmt.Sprintf("a rescan of the running wallet finished but none of its %d unconfirmed transactions was offered to the backend (no rebroadcast goroutine present for 20 s)", len(want)))
		return false
	}
	if err := f.W.Rescan([]btcutil.Address{own}, nil); err != nil {
		fail("c20:harness-rescan", err.Error())
		return false
	}
	// give the pass of the second resynchronisation time to run next to the held one
	// (it is not held); then let the first pass continue.  Waiting here decides nothing.
	for i := 0; i < 3000 && missing() != nil; i++ {
		time.Sleep(time.Millisecond)
	}
	mu.Lock()
	second := phase == 2
	mu.Unlock()
	close(release)
	released = true
	if !second {
		// the second rescan never reached the backend: nothing to judge
		r.Hit("overlapping-resyncs-second-not-started", 1)
		return true
	}
	idle = 0
	for idle < 20000 && missing() != nil {
		time.Sleep(time.Millisecond)
		if resendRunning(f.W) {
			idle = 0
		} else {
			idle++
		}
	}
	if m := missing(); m != nil {
		mu.Lock()
		held := heldTx
		mu.Unlock()
		fail("c20:not-reoffered-after-resync", fmt.Sprintf("two rescans of the running wallet finished one after the other; unconfirmed transaction %v was not offered to the backend after the second one finished (the hand-over of %v for the first was still in flight then; no rebroadcast goroutine present for 20 s)", m, held))
		return false
	}
	*log = append(*log, fmt.Sprintf("two overlapping resynchronisations: %d unconfirmed transactions re-offered after the second", len(want)))
	r.Hit("overlapping-resyncs-checked", 1)
	return true
}

// reoffer calls the wallet's rebroadcast synchronously (hook) with an answer
// policy and judges the list of transactions the backend received.
func reoffer(r *evid.Run, f *wh.Funded, rg *rand.Rand, log *[]string, fail func(string, string)) bool {
	ch := f.Chain
	want := unminedSet(f)
	if len(want) == 0 {
		return true
	}
	// unconfirmed transactions in wallet order for the descendant computation
	var txs []*wire.MsgTx
	walletdb.View(f.DB, func(tx walletdb.ReadTx) error {
		txs, _ = f.W.TxStore.UnminedTxs(tx.ReadBucket(wh.TxNS))
		return nil
	})
	policy := rg.Intn(3) // 0 accept all (they are in the mempool already), 1 reject the first offered, 2 reject a random one
	sent0 := len(ch.SentTxs())
	n := 0
	rejectAt := 1
	if policy == 2 {
		rejectAt = 1 + rg.Intn(len(want))
	}
	rejected := map[chainhash.Hash]bool{}
	ch.SendHook = func(tx *wire.MsgTx) error {
		n++
		if policy != 0 && n == rejectAt {
			rejected[tx.TxHash()] = true
			go ch.Evict(tx.TxHash()) // the node no longer has it (hook runs without the chain lock)
			return errors.New("backend: rejected on re-offer")
		}
		// a descendant of a rejected tx has missing inputs now
		for _, in := range tx.TxIn {
			if rejected[in.PreviousOutPoint.Hash] {
				rejected[tx.TxHash()] = true
				go ch.Evict(tx.TxHash())
				return chain.ErrMissingInputsOrSpent
			}
		}
		return nil
	}
	f.W.VerifResendUnminedTxs()
	ch.SendHook = nil
	ch.Barrier()
	offered := ch.SentTxs()[sent0:]
	pos := map[chainhash.Hash]int{}
	for i, t := range offered {
		h := t.TxHash()
		if _, dup := pos[h]; dup {
			fail("c20:reoffered-twice", fmt.Sprintf("transaction %v was offered twice in one rebroadcast pass", h))
			return false
		}
		pos[h] = i
	}
	// descendants of rejected ones need not be offered; everything else must be
	desc := map[chainhash.Hash]bool{}
	for h := range rejected {
		desc[h] = true
	}
	for changed := true; changed; {
		changed = false
		for _, t := range txs {
			if desc[t.TxHash()] {
				continue
			}
			for _, in := range t.TxIn {
				if desc[in.PreviousOutPoint.Hash] {
					desc[t.TxHash()] = true
					changed = true
				}
			}
		}
	}
	for h := range want {
		if _, ok := pos[h]; !ok && !desc[h] {
			fail("c20:unconfirmed-tx-not-reoffered", fmt.Sprintf("rebroadcast pass offered %d of %d unconfirmed wallet transactions; %v (not a descendant of a rejected one) was not offered (policy %d, rejected %d)", len(offered), len(want), h, policy, len(rejected)))
			return false
		}
	}
	// parents before children among the offered ones
	for _, t := range offered {
		for _, in := range t.TxIn {
			if pi, ok := pos[in.PreviousOutPoint.Hash]; ok && pi >= pos[t.TxHash()] {
				fail("c20:reoffer-child-before-parent", fmt.Sprintf("transaction %v was offered before its unconfirmed parent %v", t.TxHash(), in.PreviousOutPoint.Hash))
				return false
			}
		}
	}
	// rejected ones (and descendants) must be forgotten by the wallet and the ledger follows
	um := unminedSet(f)
	for h := range desc {
		if um[h] {
			fail("c20:rejected-tx-or-descendant-still-recorded", fmt.Sprintf("transaction %v was rejected on re-offer (or descends from one) but is still recorded", h))
			return false
		}
	}
	for _, p := range append([]*wire.MsgTx{}, f.Pending...) {
		if desc[p.TxHash()] {
			ch.Evict(p.TxHash())
			f.Forget(p)
		}
	}
	*log = append(*log, fmt.Sprintf("re-offer pass (policy %d): %d unconfirmed, %d offered, %d rejected incl. descendants", policy, len(want), len(offered), len(desc)))
	r.Hit("reoffer-passes", 1)
	r.Hit("reoffered-transactions", len(offered))
	if len(rejected) > 0 {
		r.Hit("reoffer-passes-with-rejection", 1)
	}
	_ = wtxmgr.LockID{}
	_ = sort.Strings
	return true
}

func main() {
	r := evid.New(P, "fault_enumeration")
	r.Rule("complete funded wallets over the fake backend (plus, at the end of half of the wallets, a PublishTransaction with NO backend attached, which must fail and leave no trace); at every broadcast (fresh SendOutputs, a payment to one of the wallet's own addresses, a child sweeping BOTH wallet outputs of such an unconfirmed parent, chained send spending a pending transaction's change at minconf 0, CreateSimpleTx + PublishTransaction, re-publish of a recorded parent that has unconfirmed children) one backend answer class is applied, cycling through all of: accepted, already-in-mempool, already-known, already-confirmed, rejected (generic / insufficient fee / mempool conflict / each of the node's other rejection reasons in chain.RPCErr in turn) and subscription failure at the 1st and at the 2nd NotifyReceived call of the attempt. Oracle per class from a before/after snapshot (balance at 0 and 1 conf, ListUnspent set, unconfirmed set, leases): failed attempts return an error and leave the snapshot identical (and remove every unconfirmed descendant of a re-published parent, releasing its coins); accepted / already-in-mempool record the transaction exactly once, make its inputs unspendable and count the change once; already-known/confirmed return no error. Re-offer: the synchronous verif hook runs the wallet's rebroadcast with three answer policies (accept all / reject the first offered / reject a random one): every unconfirmed transaction that is not a descendant of a rejected one must be offered exactly once, parents before children, and rejected ones (with descendants) must be forgotten; after restarts the production (detached) trigger is judged once no goroutine is left inside the rebroadcast. Non-trivial = every wallet; distinct = distinct attempt logs.")
	r.Trusted("internal/fakechain", "verif hook wallet.VerifResendUnminedTxs (synchronous call of the unexported method)")
	r.Assume("already-known / already-confirmed: only 'no error' is asserted (the wallet expects the block notification)", "quiescence of the detached rebroadcast goroutine is decided from goroutine state")
	dir := r.TempDir("c20")
	defer os.RemoveAll(dir)
	r.Parallel("wallet", r.N(27, 540), evid.Workers(), func(i int, cs int64) { runWallet(r, dir, i, cs) })
	for _, c := range classes {
		r.Require("attempts:"+c, 5)
	}
	r.Require("failed-broadcasts-left-no-trace", 40)
	r.Require("accepted-broadcasts-recorded", 40)
	r.Require("reoffer-passes", 20)
	r.Require("overlapping-resyncs-checked", 2)
	r.Require("attempts-spending-a-leased-input", 5)
	r.Require("reoffer-passes-with-rejection", 5)
	r.Require("mode:chained-send", 5)
	os.Exit(r.Finish())
}
