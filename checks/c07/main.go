// C07 — authored transactions conserve value and pay at least the requested fee rate.
package main

import (
	"fmt"
	"math/rand"
	"os"
	"sort"

	"github.com/btcsuite/btcd/btcec/v2"
	"github.com/btcsuite/btcd/btcutil"
	"github.com/btcsuite/btcd/chaincfg"
	"github.com/btcsuite/btcd/chaincfg/chainhash"
	"github.com/btcsuite/btcd/mempool"
	"github.com/btcsuite/btcd/txscript"
	"github.com/btcsuite/btcd/wire"
	"github.com/btcsuite/btcwallet/wallet/txauthor"
	"github.com/btcsuite/btcwallet/wallet/txsizes"

	"verif/internal/evid"
)

const P = "C07"

var params = &chaincfg.RegressionNetParams

type secrets struct{ keys map[string]*btcec.PrivateKey }

func (s secrets) GetKey(a btcutil.Address) (*btcec.PrivateKey, bool, error) {
	k, ok := s.keys[a.EncodeAddress()]
	if !ok {
		return nil, false, fmt.Errorf("no key for %s", a)
	}
	return k, true, nil
}
func (s secrets) GetScript(a btcutil.Address) ([]byte, error) { return nil, fmt.Errorf("no script") }
func (s secrets) ChainParams() *chaincfg.Params               { return params }

var inKinds = []string{"p2pkh", "p2wpkh", "np2wpkh", "p2tr"}

func keyScript(s secrets, kind string, r *rand.Rand) []byte {
	kb := make([]byte, 32)
	r.Read(kb)
	kb[0] |= 1
	priv, pub := btcec.PrivKeyFromBytes(kb)
	h := btcutil.Hash160(pub.SerializeCompressed())
	var addr btcutil.Address
	switch kind {
	case "p2pkh":
		addr, _ = btcutil.NewAddressPubKeyHash(h, params)
	case "p2wpkh":
		addr, _ = btcutil.NewAddressWitnessPubKeyHash(h, params)
	case "np2wpkh":
		wa, _ := btcutil.NewAddressWitnessPubKeyHash(h, params)
		ws, _ := txscript.PayToAddrScript(wa)
		addr, _ = btcutil.NewAddressScriptHash(ws, params)
	case "p2tr":
		tk := txscript.ComputeTaprootKeyNoScript(pub)
		addr, _ = btcutil.NewAddressTaproot(tk.SerializeCompressed()[1:], params)
	}
	s.keys[addr.EncodeAddress()] = priv
	pk, _ := txscript.PayToAddrScript(addr)
	return pk
}

// outScript builds an output script of the given standard type.
func outScript(kind string, r *rand.Rand) []byte {
	h20 := make([]byte, 20)
	h32 := make([]byte, 32)
	r.Read(h20)
	r.Read(h32)
	var a btcutil.Address
	switch kind {
	case "p2pkh":
		a, _ = btcutil.NewAddressPubKeyHash(h20, params)
	case "p2wpkh":
		a, _ = btcutil.NewAddressWitnessPubKeyHash(h20, params)
	case "p2sh":
		a, _ = btcutil.NewAddressScriptHashFromHash(h20, params)
	case "p2wsh":
		a, _ = btcutil.NewAddressWitnessScriptHash(h32, params)
	case "p2tr":
		a, _ = btcutil.NewAddressTaproot(h32, params)
	case "opreturn":
		s, _ := txscript.NullDataScript(h32[:r.Intn(33)])
		return s
	}
	s, _ := txscript.PayToAddrScript(a)
	return s
}

var outKinds = []string{"p2pkh", "p2wpkh", "p2sh", "p2wsh", "p2tr", "opreturn"}
var changeSizes = map[string]int{"p2pkh": txsizes.P2PKHPkScriptSize, "p2wpkh": txsizes.P2WPKHPkScriptSize, "np2wpkh": txsizes.NestedP2WPKHPkScriptSize, "p2tr": txsizes.P2TRPkScriptSize}

func countKinds(scripts [][]byte) (p2pkh, p2tr, p2wpkh, nested int) {
	for _, s := range scripts {
		switch {
		case txscript.IsPayToScriptHash(s):
			nested++
		case txscript.IsPayToWitnessPubKeyHash(s):
			p2wpkh++
		case txscript.IsPayToTaproot(s):
			p2tr++
		default:
			p2pkh++
		}
	}
	return
}

func dustThreshold(script []byte) btcutil.Amount {
	lo, hi := int64(0), int64(5000)
	for lo+1 < hi { // smallest non-dust value
		mid := (lo + hi) / 2
		if isDust(wire.NewTxOut(mid, script), defaultRelayFeePerKb) {
			lo = mid
		} else {
			hi = mid
		}
	}
	return btcutil.Amount(hi)
}

type coin struct {
	op   wire.OutPoint
	out  *wire.TxOut
	kind string
}

func one(r *evid.Run, rg *rand.Rand, idx int, cs int64) {
	s := secrets{keys: map[string]*btcec.PrivateKey{}}
	noutChoices := []int{0, 1, 1, 2, 2, 3, 5, 10, 40, 250, 251, 252, 253, 254, 255, 300, 600}
	nout := noutChoices[rg.Intn(len(noutChoices))]
	if idx >= 0 && idx < len(noutChoices) {
		nout = noutChoices[idx]
	}
	// the caller's slice has spare capacity (append-grown slices usually do):
	// authoring must not write into the caller's backing array
	outputs := make([]*wire.TxOut, 0, nout+2)
	var target btcutil.Amount
	sameKind := outKinds[rg.Intn(len(outKinds))]
	for i := 0; i < nout; i++ {
		k := sameKind
		if rg.Intn(3) == 0 {
			k = outKinds[rg.Intn(len(outKinds))]
		}
		sc := outScript(k, rg)
		v := int64(600 + rg.Intn(100000))
		if k == "opreturn" {
			v = 0
		}
		outputs = append(outputs, wire.NewTxOut(v, sc))
		target += btcutil.Amount(v)
	}
	orig := make([]wire.TxOut, len(outputs))
	for i, o := range outputs {
		orig[i] = *o
	}
	rates := []int{1000, 1001, 1999, 2500, 10000, 33333, 100000, 250000, 500000}
	rate := btcutil.Amount(rates[rg.Intn(len(rates))])
	ck := inKinds[rg.Intn(4)]
	cpk := keyScript(s, ck, rg)
	changeCalls := 0
	cs2 := &txauthor.ChangeSource{ScriptSize: changeSizes[ck], NewScript: func() ([]byte, error) { changeCalls++; return cpk, nil }}
	dust := dustThreshold(cpk)

	nin := 1 + rg.Intn(6)
	switch rg.Intn(12) {
	case 0:
		nin = 250 + rg.Intn(8) // input-count varint boundary
	case 1:
		nin = 20 + rg.Intn(60)
	}
	mono := rg.Intn(4) == 0 // all inputs of one kind
	mk := inKinds[rg.Intn(4)]
	var coins []coin
	var total btcutil.Amount
	for i := 0; i < nin; i++ {
		k := inKinds[rg.Intn(4)]
		if mono {
			k = mk
		}
		v := int64(1000 + rg.Intn(200000))
		coins = append(coins, coin{wire.OutPoint{Hash: chainhash.Hash{byte(i), byte(i >> 8), 1, byte(cs)}, Index: uint32(i)}, wire.NewTxOut(v, keyScript(s, k, rg)), k})
		total += btcutil.Amount(v)
	}
	estAll := func(cs []coin) int {
		var scr [][]byte
		for _, c := range cs {
			scr = append(scr, c.out.PkScript)
		}
		a, b, c, d := countKinds(scr)
		return txsizes.EstimateVirtualSize(a, b, c, d, outputs, cs2.ScriptSize)
	}
	// boundary placement: make the total (or the first k coins) land at
	// target+fee-1 / +0 / +1, and around the change dust threshold
	placement := rg.Intn(4)
	if placement != 0 {
		k := nin
		if placement == 2 {
			k = 1 + rg.Intn(nin) // boundary on a prefix: forces re-selection rounds
		}
		var sub btcutil.Amount
		for _, c := range coins[:k] {
			sub += btcutil.Amount(c.out.Value)
		}
		need := target + feeFor(rate, estAll(coins[:k]))
		deltas := []int64{-1, 0, 1, int64(dust) - 1, int64(dust), int64(dust) + 1, -int64(dust), 5, 68, 150}
		if placement == 3 {
			// just enough for the first fee guess (one P2WPKH input) but not for the real inputs
			first := feeFor(rate, txsizes.EstimateVirtualSize(0, 0, 1, 0, outputs, cs2.ScriptSize))
			need = target + first
			deltas = []int64{0, 1, 10, 30}
		}
		adj := int64(need-sub) + deltas[rg.Intn(len(deltas))]
		if coins[k-1].out.Value+adj > 0 {
			coins[k-1].out.Value += adj
			total += btcutil.Amount(adj)
		}
	}
	// input sources: (0) everything at once, (1) incremental in given order
	// (like the wallet's), (2) incremental largest-first
	srcKind := rg.Intn(3)
	order := append([]coin(nil), coins...)
	if srcKind == 2 {
		sort.SliceStable(order, func(i, j int) bool { return order[i].out.Value > order[j].out.Value })
	}
	calls := 0
	src := func(t btcutil.Amount) (btcutil.Amount, []*wire.TxIn, []btcutil.Amount, [][]byte, error) {
		calls++
		var tot btcutil.Amount
		var txins []*wire.TxIn
		var vals []btcutil.Amount
		var scr [][]byte
		for i := range order {
			if srcKind != 0 && tot >= t {
				break
			}
			op := order[i].op
			txins = append(txins, wire.NewTxIn(&op, nil, nil))
			tot += btcutil.Amount(order[i].out.Value)
			vals = append(vals, btcutil.Amount(order[i].out.Value))
			scr = append(scr, order[i].out.PkScript)
		}
		return tot, txins, vals, scr, nil
	}
	desc := fmt.Sprintf("nout=%d rate=%d change=%s nin=%d mono=%v placement=%d source=%d total=%d target=%d", nout, rate, ck, nin, mono, placement, srcKind, total, target)
	detail := func(extra string) map[string]any {
		var ins []string
		for _, c := range order {
			ins = append(ins, fmt.Sprintf("%s:%d", c.kind, c.out.Value))
		}
		if len(ins) > 40 {
			ins = append(ins[:40], "...")
		}
		return map[string]any{"case": desc, "coins_in_source_order": ins, "what": extra}
	}
	atx, err := txauthor.NewUnsignedTransaction(outputs, rate, src, cs2)
	r.Hit("authoring-calls", 1)
	if spare := outputs[:nout+1][nout]; spare != nil {
		r.Violation("c07:callers-output-slice-written", desc+": authoring wrote into the spare capacity of the caller's outputs slice", "author", cs, detail(""))
		return
	}
	if err == nil && rg.Intn(3) == 0 {
		// author a second transaction for the same outputs slice (fee preview / fee bump)
		// BEFORE the first one is signed and judged: the first must be unaffected
		rate2 := btcutil.Amount(rates[rg.Intn(len(rates))])
		calls2 := calls
		_, _ = txauthor.NewUnsignedTransaction(outputs, rate2, src, cs2)
		calls = calls2
		r.Hit("re-authorings-on-same-outputs", 1)
	}
	if calls > 1 {
		r.Hit("multi-round-selections", 1)
	}
	if err != nil {
		if _, ok := err.(txauthor.InputSourceError); !ok {
			r.Violation("c07:unexpected-error", desc+": "+err.Error(), "author", cs, detail(err.Error()))
			return
		}
		// most conservative reading: all offered coins, worst-case estimate with change
		need := target + feeFor(rate, estAll(coins))
		if total >= need {
			_, tr, _, _ := countKinds(scripts(coins))
			key := "c07:insufficient-but-covers"
			r.Violation(key, fmt.Sprintf("%s: insufficient funds reported although all %d offered coins (%d taproot) total %d >= outputs + worst-case fee %d", desc, nin, tr, total, need), "author", cs, detail(""))
			return
		}
		r.Hit("insufficient-funds-correct", 1)
		r.Case(desc, false)
		return
	}
	// requested outputs unchanged, in order
	k := 0
	for i, o := range atx.Tx.TxOut {
		if i == atx.ChangeIndex {
			continue
		}
		if k >= len(orig) || o.Value != orig[k].Value || string(o.PkScript) != string(orig[k].PkScript) {
			r.Violation("c07:outputs-changed", desc+fmt.Sprintf(": output %d differs from the requested one", i), "author", cs, detail(""))
			return
		}
		k++
	}
	if k != len(orig) {
		r.Violation("c07:outputs-changed", desc+": requested outputs missing", "author", cs, detail(""))
		return
	}
	seen := map[wire.OutPoint]bool{}
	for _, in := range atx.Tx.TxIn {
		if seen[in.PreviousOutPoint] {
			r.Violation("c07:duplicate-input", desc, "author", cs, detail(""))
			return
		}
		seen[in.PreviousOutPoint] = true
	}
	var inSum, outSum btcutil.Amount
	for _, v := range atx.PrevInputValues {
		inSum += v
	}
	for _, o := range atx.Tx.TxOut {
		outSum += btcutil.Amount(o.Value)
	}
	if inSum != atx.TotalInput || len(atx.PrevInputValues) != len(atx.Tx.TxIn) || len(atx.PrevScripts) != len(atx.Tx.TxIn) {
		r.Violation("c07:total-input-mismatch", desc, "author", cs, detail(""))
		return
	}
	fee := inSum - outSum
	if fee < 0 {
		r.Violation("c07:negative-fee", desc, "author", cs, detail(""))
		return
	}
	if err := atx.AddAllInputScripts(s); err != nil {
		r.Violation("c07:sign-error", desc+": "+err.Error(), "author", cs, detail(err.Error()))
		return
	}
	vsize := int(mempool.GetTxVirtualSize(btcutil.NewTx(atx.Tx)))
	a, b, c, d := countKinds(atx.PrevScripts)
	est := txsizes.EstimateVirtualSize(a, b, c, d, outputs, cs2.ScriptSize)
	hasChange := atx.ChangeIndex >= 0
	if real := feeFor(rate, vsize); fee < real {
		key := "c07:fee-below-real-size"
		if nout+1 >= 253 && nout < 253 && hasChange {
			key += ":change-crosses-253-outputs"
		}
		r.Violation(key, fmt.Sprintf("%s: fee %d < rate x real signed vsize %d (vsize %d, estimate %d, inputs p2pkh/tr/wpkh/nested %d/%d/%d/%d, change=%v)", desc, fee, real, vsize, est, a, b, c, d, hasChange), "author", cs, detail(""))
		return
	}
	if max := feeFor(rate, est) + dust; fee > max {
		r.Violation("c07:fee-above-band", fmt.Sprintf("%s: fee %d > rate x worst-case estimate %d + dust threshold %d (selection rounds %d)", desc, fee, feeFor(rate, est), dust, calls), "author", cs, detail(""))
		return
	}
	if hasChange {
		co := atx.Tx.TxOut[atx.ChangeIndex]
		if co.Value <= 0 || isDust(co, defaultRelayFeePerKb) {
			r.Violation("c07:dust-change", fmt.Sprintf("%s: change output of %d is zero or dust", desc, co.Value), "author", cs, detail(""))
			return
		}
		if string(co.PkScript) != string(cpk) {
			r.Violation("c07:wrong-change-script", desc, "author", cs, detail(""))
			return
		}
		r.Hit("with-change", 1)
	} else {
		r.Hit("without-change", 1)
	}
	// every input verifies under standard script rules
	fetcher := txscript.NewMultiPrevOutFetcher(nil)
	for i, in := range atx.Tx.TxIn {
		fetcher.AddPrevOut(in.PreviousOutPoint, wire.NewTxOut(int64(atx.PrevInputValues[i]), atx.PrevScripts[i]))
	}
	hc := txscript.NewTxSigHashes(atx.Tx, fetcher)
	for i := range atx.Tx.TxIn {
		vm, err := txscript.NewEngine(atx.PrevScripts[i], atx.Tx, i, txscript.StandardVerifyFlags, nil, hc, int64(atx.PrevInputValues[i]), fetcher)
		if err == nil {
			err = vm.Execute()
		}
		if err != nil {
			r.Violation("c07:script-fail", desc+": "+err.Error(), "author", cs, detail(err.Error()))
			return
		}
	}
	r.Hit("signed-and-measured", 1)
	r.Hit("inputs-signed", len(atx.Tx.TxIn))
	if nout >= 250 && nout <= 255 {
		r.Hit("compact-size-boundary-cases", 1)
	}
	r.Case(desc, true)
	if r.WantSample() && nin < 5 && nout < 4 {
		r.Sample(map[string]any{"case": desc, "fee": fee, "real_vsize": vsize, "estimate": est, "change": hasChange, "selection_rounds": calls})
	}
}

func scripts(cs []coin) [][]byte {
	var r [][]byte
	for _, c := range cs {
		r = append(r, c.out.PkScript)
	}
	return r
}

func main() {
	r := evid.New(P, "exploration")
	r.Rule("generated authoring requests: output counts {0,1,2,3,5,10,40,250..255 each,300,600} of P2PKH/P2WPKH/P2SH/P2WSH/P2TR/OP_RETURN scripts, rates 1000..500000 sat/kvB, coin multisets of 1..260 inputs mixing P2PKH/P2WPKH/nested-P2WPKH/P2TR (or one kind), every change script type, three input-source behaviours (all at once / incremental in order / incremental largest-first), amounts placed deliberately at target+fee-1/+0/+1, at the change dust threshold +-1, on a PREFIX of the coins (forces several selection rounds), and at 'enough for the first fee guess only'. Each result of the real NewUnsignedTransaction is signed for real (AddAllInputScripts with a harness key ring), its real virtual size measured, every input executed in the script engine, and judged: outputs unchanged, inputs = outputs + fee, fee >= rate x real vsize, fee <= rate x worst-case estimate + dust threshold, no zero/dust change, insufficient-funds only if all offered coins cannot cover outputs + worst-case fee. A wallet-level phase drives the same inequalities through the wallet's own input source: funded wallets author (CreateSimpleTx, not published) 40 requests each with amounts placed on the k largest eligible coins minus 110..1100 vB worth of fee, so that a second selection round is needed; inputs must be distinct ledger coins, TotalInput their real worth, requested outputs present unchanged, change not dust, fee within the band against the real signed size. Non-trivial = successfully authored, signed and measured; distinct = distinct request descriptions.")
	r.Trusted("btcd mempool.GetTxVirtualSize, txscript.Engine with StandardVerifyFlags", "btcd mempool.IsDust as the dust policy (fee arithmetic is the harness's own: rate x size / 1000)")
	r.Assume("uncompressed-key P2PKH inputs are excluded (documented as unreliable; an HD wallet never produces them)", "input sources honour the InputSource contract (return at least the target when they can)")
	n := r.N(2500, 200000)
	r.Parallel("author", n, evid.Workers(), func(i int, cs int64) {
		one(r, rand.New(rand.NewSource(cs)), i, cs)
	})
	dir := r.TempDir("c07")
	defer os.RemoveAll(dir)
	r.Parallel("wallet", r.N(12, 300), evid.Workers(), func(i int, cs int64) { walletAuthoring(r, dir, cs) })
	r.Require("wallet-authored-and-measured", 100)
	r.Require("wallet-multi-round-selections", 10)
	r.Require("wallet-sweep-like-requests-authored", 5)
	r.Require("wallet-requests-with-explicitly-selected-coins", 5)
	r.Require("wallet-authored-from-the-imported-keys-account", 5)
	r.Require("signed-and-measured", 800)
	r.Require("multi-round-selections", 100)
	r.Require("compact-size-boundary-cases", 50)
	r.Require("with-change", 200)
	r.Require("without-change", 50)
	r.Require("insufficient-funds-correct", 20)
	os.Exit(r.Finish())
}
