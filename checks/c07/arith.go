package main

import (
	"github.com/btcsuite/btcd/btcutil"
	"github.com/btcsuite/btcd/mempool"
	"github.com/btcsuite/btcd/txscript"
	"github.com/btcsuite/btcd/wire"
)

// The oracle's own arithmetic, independent of wallet/txrules (which is code under
// test: anchors of C07 list wallet/txrules/rules.go).

// feeFor is "the requested rate applied to a size": rate [sat/kvB] x size [vB],
// floored to whole satoshi; a non-zero rate never yields a zero fee.
func feeFor(rate btcutil.Amount, size int) btcutil.Amount {
	fee := btcutil.Amount(int64(rate) * int64(size) / 1000)
	if fee == 0 && rate > 0 {
		fee = rate
	}
	if fee < 0 || fee > btcutil.MaxSatoshi {
		fee = btcutil.MaxSatoshi
	}
	return fee
}

// isDust: btcd's relay policy (mempool.IsDust) at the given relay fee; data
// carrier outputs are exempt.
func isDust(o *wire.TxOut, relayFeePerKb btcutil.Amount) bool {
	if txscript.GetScriptClass(o.PkScript) == txscript.NullDataTy {
		return false
	}
	return mempool.IsDust(o, relayFeePerKb)
}

const defaultRelayFeePerKb btcutil.Amount = 1000
