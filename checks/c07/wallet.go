package main

import (
	"errors"
	"fmt"
	"math/rand"
	"sort"
	"strings"

	"github.com/btcsuite/btcd/btcutil"
	"github.com/btcsuite/btcd/mempool"
	"github.com/btcsuite/btcd/txscript"
	"github.com/btcsuite/btcd/wire"
	"github.com/btcsuite/btcwallet/waddrmgr"
	"github.com/btcsuite/btcwallet/wallet"
	"github.com/btcsuite/btcwallet/wallet/txauthor"

	"verif/internal/evid"
	"verif/internal/wh"
)

// walletAuthoring: the same inequalities through the wallet's own input source
// (wallet.makeInputSource feeding txauthor.NewUnsignedTransaction inside
// CreateSimpleTx).  A funded wallet authors (without publishing) transactions
// whose amounts are placed so that the first selection round covers the amount
// plus the first fee guess but not the fee of the inputs actually picked, which
// forces the input source to be called again.  The harness ledger of delivered
// coins is the oracle for input values.
func walletAuthoring(r *evid.Run, dir string, cs int64) {
	rg := rand.New(rand.NewSource(cs))
	f, err := wh.NewFunded(rg, dir, true, 4)
	if err != nil {
		if errors.Is(err, wh.ErrNotSynced) {
			r.Inconclusive("sync watchdog")
			return
		}
		r.Violation("c07:harness-setup", err.Error(), "wallet", cs, nil)
		return
	}
	defer f.Close()
	f.MinePending()
	// coins on imported private keys (imported-keys account), one key per scope
	impScopes := map[waddrmgr.KeyScope]bool{}
	for _, sc := range wh.FundScopes {
		if rg.Intn(2) == 0 {
			if err := f.FundImportedKey(rg, sc, 1+rg.Intn(3)); err == nil {
				impScopes[sc] = true
			}
		}
	}
	// half of the wallets also hold coins worth about what an input costs at the
	// higher fee rates
	small := rg.Intn(2) == 0
	if small {
		if err := f.FundSmall(rg, 3+rg.Intn(5)); err != nil {
			small = false
		}
	}
	var log []string
	fail := func(key, what string) {
		r.Violation(key, what, "wallet", cs, map[string]any{"requests": log, "what": what})
	}
	dests := [][]byte{}
	for _, a := range []btcutil.Address{mustAddr(btcutil.NewAddressWitnessPubKeyHash(make([]byte, 20), f.Params)), mustAddr(btcutil.NewAddressPubKeyHash(make([]byte, 20), f.Params)), mustAddr(btcutil.NewAddressTaproot(make([]byte, 32), f.Params))} {
		pk, _ := txscript.PayToAddrScript(a)
		dests = append(dests, pk)
	}
	for n := 0; n < 40; n++ {
		sc := wh.FundScopes[rg.Intn(len(wh.FundScopes))]
		rate := btcutil.Amount([]int{1000, 2000, 5000, 20000}[rg.Intn(4)])
		acct := uint32(0)
		if impScopes[sc] && rg.Intn(3) == 0 {
			acct = waddrmgr.ImportedAddrAccount // spend the coins of the imported key
		}
		// with small coins around: 1 in 3 requests selects over all scopes of the
		// default account (mixed input types) at a rate where some of them cost more
		// than they are worth, and asks for nearly everything the coins can yield
		scp := &sc
		sweepLike := small && acct == 0 && rg.Intn(2) == 0
		if sweepLike {
			scp = nil
			rate = btcutil.Amount([]int{20000, 50000, 100000}[rg.Intn(3)])
			if rg.Intn(2) == 0 {
				rate = btcutil.Amount(f.SmallRate * 1000) // the rate the aimed small coins were made for
			}
		}
		var elig []*wh.Coin
		for _, c := range f.SortedCoins() {
			if f.Ineligible(c, scp, acct, 1) == "" {
				elig = append(elig, c)
			}
		}
		if len(elig) == 0 {
			continue
		}
		sort.SliceStable(elig, func(i, j int) bool { return elig[i].Out.Value > elig[j].Out.Value })
		k := 1 + rg.Intn(min(4, len(elig)))
		var sum int64
		for _, c := range elig[:k] {
			sum += c.Out.Value
		}
		amt := int64(5000 + rg.Intn(50000))
		placed := false
		if rg.Intn(4) != 0 {
			d := []int64{110, 141, 150, 154, 165, 176, 180, 208, 220, 260, 300, 420, 700, 1100}[rg.Intn(14)] * int64(rate) / 1000
			if sum-d > 1000 {
				amt, placed = sum-d, true
			}
		}
		nout := 1 + rg.Intn(3)
		// what all eligible coins together yield after paying for themselves at their
		// worst-case signed size (the largest-first strategy may spend every coin)
		// 1 in 4 placed requests hands the wallet exactly those k coins (explicit
		// selection): there is nothing to add in a second round, so the request is
		// either covered by them or refused
		explicit := placed && !sweepLike && acct == 0 && rg.Intn(4) == 0
		usable := elig
		if explicit {
			usable = elig[:k]
		}
		// half of the sweep-like requests use the random strategy, which first drops
		// every coin that does not pay for its own input (judged per coin, by the
		// smallest size an input of ITS type can have) and may then spend all the
		// others: coins clearly worth more than their worst-case input count in full,
		// coins within 2 vB of the line count as a loss only
		strategy := wallet.CoinSelectionLargest
		random := sweepLike && rg.Intn(2) == 0
		if random {
			strategy = wallet.CoinSelectionRandom
		}
		var netAll int64
		for _, c := range usable {
			worst := int64(feeFor(rate, worstInputVSize(c.Out.PkScript)))
			switch {
			case !random:
				netAll += c.Out.Value - worst
			case c.Out.Value > worst:
				netAll += c.Out.Value - worst
			case c.Out.Value >= int64(feeFor(rate, worstInputVSize(c.Out.PkScript)-2)):
				netAll -= worst - c.Out.Value // kept or dropped: at worst this much is lost
			}
		}
		// overhead + a change output of the largest type; the requested outputs are
		// added below, once they are known.  Every size here is >= the wallet's own
		// estimate, so "covered" by this arithmetic implies covered by the wallet's.
		baseSize := 11 + 43
		if sweepLike {
			if v := netAll - int64(feeFor(rate, baseSize+nout*43)) - 100 - int64(rg.Intn(400)); v > 1000 {
				amt, placed = v, false
			}
		}
		var outs []*wire.TxOut
		for i := 0; i < nout; i++ {
			v := amt / int64(nout)
			if i == 0 {
				v = amt - v*int64(nout-1)
			}
			outs = append(outs, wire.NewTxOut(v, dests[rg.Intn(len(dests))]))
		}
		for _, o := range outs {
			baseSize += 9 + len(o.PkScript)
		}
		baseFee := int64(feeFor(rate, baseSize))
		want := make([]wire.TxOut, len(outs))
		for i, o := range outs {
			want[i] = wire.TxOut{Value: o.Value, PkScript: append([]byte(nil), o.PkScript...)}
		}
		var opts []wallet.TxCreateOption
		if explicit {
			var picks []wire.OutPoint
			for _, c := range elig[:k] {
				picks = append(picks, c.Op)
			}
			opts = append(opts, wallet.WithCustomSelectUtxos(picks))
			r.Hit("wallet-requests-with-explicitly-selected-coins", 1)
		}
		atx, err := f.W.CreateSimpleTx(scp, acct, outs, 1, rate, strategy, false, opts...)
		if acct == waddrmgr.ImportedAddrAccount && err == nil {
			r.Hit("wallet-authored-from-the-imported-keys-account", 1)
		}
		desc := fmt.Sprintf("CreateSimpleTx scope=%v account=%d amount=%d in %d outputs rate=%d (placed on the %d largest of %d eligible coins: %v)", sc, acct, amt, nout, rate, k, len(elig), placed)
		if sweepLike {
			desc += " [all scopes, nearly everything the coins yield]"
		}
		if random {
			desc += " [random strategy]"
			r.Hit("wallet-sweep-like-requests-with-the-random-strategy", 1)
		}
		if explicit {
			desc += " [those coins selected explicitly]"
		}
		if err != nil {
			log = append(log, desc+" -> "+err.Error())
			r.Hit("wallet-authoring-refused", 1)
			// "insufficient funds" only if the eligible coins cannot cover outputs + fee:
			// spending every eligible coin is one of the selections largest-first can make
			var ise txauthor.InputSourceError
			if (errors.As(err, &ise) || strings.Contains(err.Error(), "insufficient funds")) && netAll >= amt+baseFee+50 {
				fail("c07:wallet:insufficient-funds-although-covered", fmt.Sprintf("%s: refused with %q although the %d usable coins yield %d sat after paying for their own worst-case inputs, and outputs + base fee need at most %d", desc, err, len(usable), netAll, amt+baseFee))
				return
			}
			if sweepLike {
				r.Hit("wallet-sweep-like-requests-refused", 1)
			}
			continue
		}
		if sweepLike {
			r.Hit("wallet-sweep-like-requests-authored", 1)
		}
		tx := atx.Tx
		// the wallet hands transactions of the imported-keys account back unsigned
		// (it treats that account as watch-only for signing): sign them here with
		// the imported keys, the size that counts is the signed one
		unsigned := false
		for _, in := range tx.TxIn {
			if len(in.Witness) == 0 && len(in.SignatureScript) == 0 {
				unsigned = true
			}
		}
		if unsigned {
			if err := atx.AddAllInputScripts(secrets{keys: f.ImportedKeys}); err != nil {
				log = append(log, desc+" -> cannot sign with the imported keys: "+err.Error())
				continue
			}
			r.Hit("wallet-transactions-signed-by-the-harness", 1)
		}
		log = append(log, fmt.Sprintf("%s -> %d inputs, %d outputs", desc, len(tx.TxIn), len(tx.TxOut)))
		// inputs: distinct ledger coins; their ledger values are the truth
		seen := map[wire.OutPoint]bool{}
		var inSum int64
		for _, in := range tx.TxIn {
			c, ok := f.Coins[in.PreviousOutPoint]
			if !ok {
				fail("c07:wallet:unknown-input", fmt.Sprintf("%s: input %v is not a coin the wallet was ever paid", desc, in.PreviousOutPoint))
				return
			}
			if seen[in.PreviousOutPoint] {
				fail("c07:wallet:input-spent-twice", fmt.Sprintf("%s: the authored transaction spends %v more than once (its value would be counted twice)", desc, in.PreviousOutPoint))
				return
			}
			seen[in.PreviousOutPoint] = true
			inSum += c.Out.Value
		}
		if int64(atx.TotalInput) != inSum {
			fail("c07:wallet:total-input-wrong", fmt.Sprintf("%s: TotalInput %d, the inputs are really worth %d", desc, atx.TotalInput, inSum))
			return
		}
		// requested outputs unchanged (the change output is the only addition)
		var outSum int64
		found := make([]bool, len(want))
		extra := 0
		for i, o := range tx.TxOut {
			outSum += o.Value
			matched := false
			for j, w := range want {
				if !found[j] && w.Value == o.Value && string(w.PkScript) == string(o.PkScript) && i != atx.ChangeIndex {
					found[j], matched = true, true
					break
				}
			}
			if !matched {
				extra++
				if i != atx.ChangeIndex {
					fail("c07:wallet:outputs-changed", fmt.Sprintf("%s: output %d (%d sat) is neither requested nor the declared change output", desc, i, o.Value))
					return
				}
				if o.Value <= 0 || isDust(o, defaultRelayFeePerKb) {
					fail("c07:wallet:dust-change", fmt.Sprintf("%s: change output of %d sat is dust or zero", desc, o.Value))
					return
				}
			}
		}
		for j, ok := range found {
			if !ok {
				fail("c07:wallet:outputs-changed", fmt.Sprintf("%s: requested output %d (%d sat) is missing or altered", desc, j, want[j].Value))
				return
			}
		}
		fee := inSum - outSum
		vsize := mempool.GetTxVirtualSize(btcutil.NewTx(tx))
		minFee := int64(feeFor(rate, int(vsize)))
		if fee < minFee {
			fail("c07:wallet:fee-below-real-size", fmt.Sprintf("%s: fee %d (inputs really worth %d, outputs %d) is below rate x real signed vsize %d = %d", desc, fee, inSum, outSum, vsize, minFee))
			return
		}
		// generous upper bound: worst-case signature sizes (+2 vB per input), a
		// dropped change output (+43 vB) and one dust threshold
		maxFee := int64(feeFor(rate, int(vsize)+2*len(tx.TxIn)+43)) + 3*546*int64(rate)/1000 + 546
		if fee > maxFee {
			fail("c07:wallet:fee-above-band", fmt.Sprintf("%s: fee %d exceeds rate x (real vsize %d + slack) + dust threshold = %d", desc, fee, vsize, maxFee))
			return
		}
		r.Hit("wallet-authored-and-measured", 1)
		if len(tx.TxIn) > k || (placed && len(tx.TxIn) > 1) {
			r.Hit("wallet-multi-round-selections", 1)
		}
		// sometimes really publish it, so that later requests see spent coins and change
		// (a sweep-like transaction is never published: it would leave the wallet empty)
		if !sweepLike && rg.Intn(3) == 0 {
			if err := f.W.PublishTransaction(tx, ""); err == nil {
				f.ApplyPublished(tx)
				if rg.Intn(2) == 0 {
					f.MinePending()
				}
			}
		}
	}
	r.Case(fmt.Sprint("wallet", cs, len(log)), len(log) > 0)
}

// worstInputVSize: virtual size of an input spending pk with the largest
// signature its type can carry.
func worstInputVSize(pk []byte) int {
	switch txscript.GetScriptClass(pk) {
	case txscript.PubKeyHashTy:
		return 149
	case txscript.ScriptHashTy: // nested P2WPKH
		return 92
	case txscript.WitnessV0PubKeyHashTy:
		return 69
	case txscript.WitnessV1TaprootTy:
		return 58
	}
	return 149
}

func mustAddr(a btcutil.Address, err error) btcutil.Address {
	if err != nil {
		panic(err)
	}
	return a
}

var _ = waddrmgr.KeyScopeBIP0084
