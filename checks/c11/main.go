// C11 — database transactions are all-or-nothing, isolated and ordered.
//
// Monitor: a nested-map reference model executed in lock-step with the real
// walletdb/bdb database over random transaction programs; every return value
// and documented error class is compared at every step, the complete tree
// after every outcome (commit, error, panic, manual rollback/commit,
// read-only attempt) and after close + reopen. A concurrency phase checks
// snapshot atomicity and a single total order of commits with unique values.
package main

import (
	"bytes"
	"errors"
	"fmt"
	"math/rand"
	"os"
	"path/filepath"
	"sort"
	"strings"
	"sync"
	"sync/atomic"
	"time"

	"github.com/btcsuite/btcwallet/walletdb"
	_ "github.com/btcsuite/btcwallet/walletdb/bdb"

	"verif/internal/evid"
)

const P = "C11"

type mb struct {
	kv  map[string][]byte
	sub map[string]*mb
	seq uint64
}

func newMB() *mb { return &mb{kv: map[string][]byte{}, sub: map[string]*mb{}} }
func (b *mb) clone() *mb {
	c := newMB()
	c.seq = b.seq
	for k, v := range b.kv {
		c.kv[k] = append([]byte(nil), v...)
	}
	for k, s := range b.sub {
		c.sub[k] = s.clone()
	}
	return c
}
func (b *mb) has(k []byte) bool { _, ok := b.kv[string(k)]; return ok }
func (b *mb) keys() []string {
	var ks []string
	for k := range b.kv {
		ks = append(ks, k)
	}
	for k := range b.sub {
		ks = append(ks, k)
	}
	sort.Strings(ks)
	return ks
}
func (b *mb) dump(prefix string, out *[]string) {
	for _, k := range b.keys() {
		if s, ok := b.sub[k]; ok {
			*out = append(*out, fmt.Sprintf("%s%x/ seq=%d", prefix, k, s.seq))
			s.dump(prefix+fmt.Sprintf("%x/", k), out)
		} else {
			*out = append(*out, fmt.Sprintf("%s%x=%x", prefix, k, b.kv[k]))
		}
	}
}
func dumpReal(b walletdb.ReadBucket, prefix string, out *[]string) {
	b.ForEach(func(k, v []byte) error {
		if v == nil {
			s := b.NestedReadBucket(k)
			if s == nil {
				*out = append(*out, fmt.Sprintf("%s%x=<nil value, no bucket>", prefix, k))
				return nil
			}
			*out = append(*out, fmt.Sprintf("%s%x/ seq=%d", prefix, k, s.Sequence()))
			dumpReal(s, prefix+fmt.Sprintf("%x/", k), out)
		} else {
			*out = append(*out, fmt.Sprintf("%s%x=%x", prefix, k, v))
		}
		return nil
	})
}

var keyPool = [][]byte{{0}, {0, 0}, {0, 1}, {0xff}, {0xff, 0xff}, {0xff, 0}, []byte("a"), []byte("ab"), []byte("abc"), []byte("b"), {1, 2, 3}, []byte("k1"), []byte("k2"), {0x7f}, {0x80}}

func rkey(r *rand.Rand) []byte {
	switch r.Intn(14) {
	case 0:
		return nil
	case 1:
		k := make([]byte, 1+r.Intn(40))
		r.Read(k)
		return k
	}
	return keyPool[r.Intn(len(keyPool))]
}
func rval(r *rand.Rand) []byte {
	n := []int{0, 1, 5, 40, 300}[r.Intn(5)]
	v := make([]byte, n)
	r.Read(v)
	return v
}

var errBoom = errors.New("boom")

type world struct {
	path      string
	db        walletdb.DB
	committed *mb
	top       []byte
}

func errIs(err, want error) bool {
	if want == nil {
		return err == nil
	}
	return errors.Is(err, want)
}

// body executes a random program on the real bucket and the model bucket.
func body(r *rand.Rand, root walletdb.ReadWriteBucket, m *mb, readonly bool, log *[]string, stats map[string]int) string {
	curB, curM := root, m
	nsteps := 3 + r.Intn(40)
	for i := 0; i < nsteps; i++ {
		k := rkey(r)
		switch op := r.Intn(16); op {
		case 0, 1, 2: // put
			v := rval(r)
			err := curB.Put(k, v)
			var want error
			switch {
			case readonly:
				want = walletdb.ErrTxNotWritable
			case len(k) == 0:
				want = walletdb.ErrKeyRequired
			case curM.sub[string(k)] != nil:
				want = walletdb.ErrIncompatibleValue
			}
			*log = append(*log, fmt.Sprintf("put %x=(%d bytes) -> %v", k, len(v), err))
			stats["put"]++
			if !errIs(err, want) {
				return fmt.Sprintf("error-class:put|Put(%x) returned %v, model expects %v", k, err, want)
			}
			if err == nil {
				curM.kv[string(k)] = v
				// reads see own writes
				if g := curB.Get(k); !bytes.Equal(g, v) || (g == nil && len(v) > 0) {
					return fmt.Sprintf("read-own-write|Get(%x) right after Put returned %x", k, g)
				}
				// presence, not just value: an empty value is still a key
				if kk, _ := curB.ReadCursor().Seek(k); !bytes.Equal(kk, k) {
					return fmt.Sprintf("read-own-write|key %x is not found by a cursor right after Put(%x, %d-byte value) succeeded", k, k, len(v))
				}
			}
		case 3: // get
			got := curB.Get(k)
			want, ok := curM.kv[string(k)]
			stats["get"]++
			if ok && len(want) > 0 && !bytes.Equal(got, want) {
				return fmt.Sprintf("get-value|Get(%x) = %x, model %x", k, got, want)
			}
			if ok && len(want) == 0 && len(got) != 0 {
				return fmt.Sprintf("get-value|Get(%x) = %x, model empty", k, got)
			}
			// nil means "no such key": a key that holds an empty value is not absent
			if ok && len(want) == 0 && got == nil {
				return fmt.Sprintf("get-value|Get(%x) = nil (no such key) although the key holds an empty value", k)
			}
			if ok && len(want) == 0 {
				stats["gets-of-empty-values"]++
			}
			if !ok && got != nil {
				return fmt.Sprintf("get-phantom|Get(%x) = %x, model has no such key", k, got)
			}
		case 4: // delete
			err := curB.Delete(k)
			var want error
			switch {
			case readonly:
				want = walletdb.ErrTxNotWritable
			case curM.sub[string(k)] != nil:
				want = walletdb.ErrIncompatibleValue
			}
			*log = append(*log, fmt.Sprintf("del %x -> %v", k, err))
			stats["delete"]++
			if !errIs(err, want) {
				return fmt.Sprintf("error-class:delete|Delete(%x) returned %v, model expects %v", k, err, want)
			}
			if err == nil {
				delete(curM.kv, string(k))
			}
		case 5: // create bucket
			nb, err := curB.CreateBucket(k)
			var want error
			switch {
			case readonly:
				want = walletdb.ErrTxNotWritable
			case len(k) == 0:
				want = walletdb.ErrBucketNameRequired
			case curM.sub[string(k)] != nil:
				want = walletdb.ErrBucketExists
			case curM.has(k):
				want = walletdb.ErrIncompatibleValue
			}
			*log = append(*log, fmt.Sprintf("mkbucket %x -> %v", k, err))
			stats["create-bucket"]++
			if !errIs(err, want) {
				return fmt.Sprintf("error-class:create-bucket|CreateBucket(%x) returned %v, model expects %v", k, err, want)
			}
			if err == nil {
				if nb == nil {
					return "nil-bucket|CreateBucket returned nil bucket and nil error"
				}
				curM.sub[string(k)] = newMB()
			} else if nb != nil {
				return fmt.Sprintf("non-nil-bucket-on-error|CreateBucket(%x) failed with %v but returned a non-nil bucket", k, err)
			}
		case 6: // create if not exists
			nb, err := curB.CreateBucketIfNotExists(k)
			var want error
			switch {
			case readonly && curM.sub[string(k)] == nil:
				want = walletdb.ErrTxNotWritable
			case readonly:
				want = nil // bbolt returns the existing bucket before checking writability? not asserted
			case len(k) == 0:
				want = walletdb.ErrBucketNameRequired
			case curM.sub[string(k)] != nil:
				want = nil
			case curM.has(k):
				want = walletdb.ErrIncompatibleValue
			}
			*log = append(*log, fmt.Sprintf("mkbucket-if %x -> %v", k, err))
			stats["create-bucket-if"]++
			if readonly && curM.sub[string(k)] != nil {
				break // outcome on a read-only tx for an existing bucket is not documented
			}
			if !errIs(err, want) {
				return fmt.Sprintf("error-class:create-bucket-if|CreateBucketIfNotExists(%x) returned %v, model expects %v", k, err, want)
			}
			if err == nil {
				if nb == nil {
					return "nil-bucket|CreateBucketIfNotExists returned nil bucket and nil error"
				}
				if curM.sub[string(k)] == nil {
					curM.sub[string(k)] = newMB()
				}
			}
		case 7: // descend
			// the read-only accessor first: present iff the model has the bucket
			rb := curB.NestedReadBucket(k)
			stats["nested-read-lookup"]++
			if s := curM.sub[string(k)]; s != nil && rb == nil {
				return fmt.Sprintf("nested-missing|NestedReadBucket(%x) is nil, model has the bucket", k)
			} else if s == nil && rb != nil {
				return fmt.Sprintf("nested-phantom|NestedReadBucket(%x) is non-nil, model has no such bucket", k)
			}
			nb := curB.NestedReadWriteBucket(k)
			stats["nested-lookup"]++
			if s := curM.sub[string(k)]; s != nil {
				if nb == nil {
					return fmt.Sprintf("nested-missing|NestedReadWriteBucket(%x) is nil, model has the bucket", k)
				}
				curB, curM = nb, s
				*log = append(*log, fmt.Sprintf("cd %x", k))
			} else if nb != nil {
				return fmt.Sprintf("nested-phantom|NestedReadWriteBucket(%x) non-nil, model has no such bucket", k)
			}
		case 8: // delete bucket
			err := curB.DeleteNestedBucket(k)
			var want error
			either := false
			switch {
			case readonly:
				want = walletdb.ErrTxNotWritable
			case len(k) == 0:
				either = true // bbolt answers an empty name differently depending on bucket contents (DESIGN §8)
			case curM.sub[string(k)] == nil && !curM.has(k):
				want = walletdb.ErrBucketNotFound
			case curM.has(k):
				want = walletdb.ErrIncompatibleValue
			}
			*log = append(*log, fmt.Sprintf("rmbucket %x -> %v", k, err))
			stats["delete-bucket"]++
			if either {
				if err == nil {
					return "error-class:delete-bucket|DeleteNestedBucket(empty name) succeeded"
				}
				break
			}
			if !errIs(err, want) {
				return fmt.Sprintf("error-class:delete-bucket|DeleteNestedBucket(%x) returned %v, model expects %v", k, err, want)
			}
			if err == nil {
				delete(curM.sub, string(k))
			}
		case 9: // cursor both directions + ForEach
			ks := curM.keys()
			c := curB.ReadCursor()
			var fw, bw, fe []string
			for kk, vv := c.First(); kk != nil; kk, vv = c.Next() {
				fw = append(fw, string(kk))
				if mv, ok := curM.kv[string(kk)]; ok && len(mv) > 0 && !bytes.Equal(vv, mv) {
					return fmt.Sprintf("cursor-value|cursor value for %x", kk)
				}
				if _, isB := curM.sub[string(kk)]; isB && vv != nil {
					return fmt.Sprintf("cursor-value|cursor returns a value for nested bucket %x", kk)
				}
			}
			for kk, _ := c.Last(); kk != nil; kk, _ = c.Prev() {
				bw = append(bw, string(kk))
			}
			curB.ForEach(func(kk, _ []byte) error { fe = append(fe, string(kk)); return nil })
			stats["cursor-scans"]++
			if fmt.Sprint(fw) != fmt.Sprint(ks) {
				return fmt.Sprintf("cursor-order:forward|forward iteration %x, model (ascending) %x", fw, ks)
			}
			if fmt.Sprint(fe) != fmt.Sprint(ks) {
				return fmt.Sprintf("cursor-order:foreach|ForEach order %x, model %x", fe, ks)
			}
			for i, j := 0, len(bw)-1; i < j; i, j = i+1, j-1 {
				bw[i], bw[j] = bw[j], bw[i]
			}
			if fmt.Sprint(bw) != fmt.Sprint(ks) {
				return fmt.Sprintf("cursor-order:backward|backward iteration (reversed) %x, model %x", bw, ks)
			}
		case 10: // seek
			ks := curM.keys()
			if len(ks) > 0 && r.Intn(3) == 0 {
				k = append([]byte(ks[len(ks)-1]), 0xff) // beyond every key
			}
			c := curB.ReadCursor()
			kk, _ := c.Seek(k)
			i := sort.SearchStrings(ks, string(k))
			stats["seeks"]++
			if i == len(ks) {
				if kk != nil {
					return fmt.Sprintf("seek|Seek(%x) past the end returned %x", k, kk)
				}
				// reverse iteration from "after the last key": Prev yields the last key
				// (the idiom callers use to walk a bucket backwards from a bound)
				if len(ks) > 0 {
					stats["seeks-past-the-end-then-prev"]++
					if pk, _ := c.Prev(); string(pk) != ks[len(ks)-1] {
						return fmt.Sprintf("cursor-order:backward|Prev after Seek(%x) past the end = %x, the last key is %x", k, pk, ks[len(ks)-1])
					}
					if len(ks) > 1 {
						if pk, _ := c.Prev(); string(pk) != ks[len(ks)-2] {
							return fmt.Sprintf("cursor-order:backward|second Prev after Seek(%x) past the end = %x, model %x", k, pk, ks[len(ks)-2])
						}
					}
				}
			} else if string(kk) != ks[i] {
				return fmt.Sprintf("seek|Seek(%x) = %x, model %x", k, kk, ks[i])
			} else if i+1 < len(ks) {
				if nk, _ := c.Next(); string(nk) != ks[i+1] {
					return fmt.Sprintf("seek|Next after Seek(%x) = %x, model %x", k, nk, ks[i+1])
				}
			}
		case 11: // sequence
			if readonly {
				if got := curB.Sequence(); got != curM.seq {
					return fmt.Sprintf("sequence|Sequence() = %d, model %d", got, curM.seq)
				}
				break
			}
			stats["sequence-ops"]++
			if r.Intn(3) == 0 {
				v := uint64(r.Intn(1000))
				if err := curB.SetSequence(v); err != nil {
					return fmt.Sprintf("sequence|SetSequence: %v", err)
				}
				curM.seq = v
			} else {
				n, err := curB.NextSequence()
				if err != nil {
					return fmt.Sprintf("sequence|NextSequence: %v", err)
				}
				curM.seq++
				if n != curM.seq {
					return fmt.Sprintf("sequence|NextSequence = %d, model %d", n, curM.seq)
				}
			}
			if got := curB.Sequence(); got != curM.seq {
				return fmt.Sprintf("sequence|Sequence() = %d, model %d", got, curM.seq)
			}
		case 12: // cursor delete
			if readonly {
				break
			}
			ks := curM.keys()
			if len(ks) == 0 {
				break
			}
			target := ks[r.Intn(len(ks))]
			c := curB.ReadWriteCursor()
			kk, _ := c.Seek([]byte(target))
			if string(kk) != target {
				return fmt.Sprintf("seek|Seek(existing %x) = %x", target, kk)
			}
			err := c.Delete()
			_, isBucket := curM.sub[target]
			stats["cursor-deletes"]++
			*log = append(*log, fmt.Sprintf("cursor-delete %x -> %v", target, err))
			if isBucket {
				if !errIs(err, walletdb.ErrIncompatibleValue) {
					return fmt.Sprintf("error-class:cursor-delete|cursor.Delete on nested bucket %x returned %v", target, err)
				}
			} else {
				if err != nil {
					return fmt.Sprintf("error-class:cursor-delete|cursor.Delete(%x): %v", target, err)
				}
				delete(curM.kv, target)
			}
		case 13, 14: // up to root
			curB, curM = root, m
		case 15: // nested buckets are independent namespaces: same key in parent and child
			if readonly || len(k) == 0 {
				break
			}
			for name, s := range curM.sub {
				nb := curB.NestedReadWriteBucket([]byte(name))
				if nb == nil {
					return fmt.Sprintf("nested-missing|bucket %x", name)
				}
				if _, isB := s.sub[string(k)]; isB {
					break
				}
				v := rval(r)
				if err := nb.Put(k, v); err != nil {
					return fmt.Sprintf("error-class:put|nested Put: %v", err)
				}
				s.kv[string(k)] = v
				stats["namespace-probes"]++
				// parent must be unaffected
				pv, ok := curM.kv[string(k)]
				g := curB.Get(k)
				if ok && len(pv) > 0 && !bytes.Equal(g, pv) || !ok && g != nil {
					return fmt.Sprintf("namespace-leak|writing key %x in a nested bucket changed the parent's value", k)
				}
				break
			}
		}
	}
	return ""
}

func compareTree(db walletdb.DB, top []byte, m *mb) string {
	var got, want []string
	err := walletdb.View(db, func(tx walletdb.ReadTx) error {
		b := tx.ReadBucket(top)
		if b == nil {
			return fmt.Errorf("top bucket missing")
		}
		dumpReal(b, "", &got)
		return nil
	})
	if err != nil {
		return "view-error|" + err.Error()
	}
	m.dump("", &want)
	if fmt.Sprint(got) != fmt.Sprint(want) {
		// first difference
		for i := 0; i < len(got) || i < len(want); i++ {
			var g, w string
			if i < len(got) {
				g = got[i]
			}
			if i < len(want) {
				w = want[i]
			}
			if g != w {
				return fmt.Sprintf("|first difference at entry %d: database %q, model %q (%d vs %d entries)", i, g, w, len(got), len(want))
			}
		}
	}
	return ""
}

// runProg executes one transaction program with a random outcome.
func (w *world) runProg(r *rand.Rand, log *[]string, stats map[string]int) (key, what string) {
	work := w.committed.clone()
	outcome := r.Intn(10)
	names := []string{"commit", "error", "panic", "readonly", "manual-rollback", "manual-commit", "panic-after-error-free-writes", "batch-commit", "batch-error", "readonly-error"}
	stats["outcome:"+names[outcome]]++
	var mismatch string
	var err error
	func() {
		defer func() {
			if rec := recover(); rec != nil && rec != "harness-panic" {
				mismatch = fmt.Sprintf("unexpected-panic|%v", rec)
			}
		}()
		switch outcome {
		case 3, 9:
			err = walletdb.View(w.db, func(tx walletdb.ReadTx) error {
				rb := tx.ReadBucket(w.top)
				if rw, ok := rb.(walletdb.ReadWriteBucket); ok {
					mismatch = body(r, rw, work, true, log, stats)
				}
				if outcome == 9 {
					// a read-only transaction that fails: it must end like any other
					return errBoom
				}
				return nil
			})
		case 4, 5:
			var tx walletdb.ReadWriteTx
			tx, err = w.db.BeginReadWriteTx()
			if err != nil {
				return
			}
			mismatch = body(r, tx.ReadWriteBucket(w.top), work, false, log, stats)
			if outcome == 4 || mismatch != "" {
				err = tx.Rollback()
			} else {
				err = tx.Commit()
			}
		case 7, 8:
			first := true
			err = walletdb.Batch(w.db, func(tx walletdb.ReadWriteTx) error {
				if !first {
					// bbolt may re-run a batch function; the program is random, so only the first run is modelled
					return errBoom
				}
				first = false
				mismatch = body(r, tx.ReadWriteBucket(w.top), work, false, log, stats)
				if outcome == 8 || mismatch != "" {
					return errBoom
				}
				return nil
			})
		default:
			err = walletdb.Update(w.db, func(tx walletdb.ReadWriteTx) error {
				mismatch = body(r, tx.ReadWriteBucket(w.top), work, false, log, stats)
				switch outcome {
				case 1:
					return errBoom
				case 2, 6:
					panic("harness-panic")
				}
				if mismatch != "" {
					return errBoom
				}
				return nil
			})
		}
	}()
	*log = append(*log, fmt.Sprintf("-- outcome %s err=%v", names[outcome], err))
	if mismatch != "" {
		i := strings.Index(mismatch, "|")
		return "c11:" + mismatch[:i], mismatch[i+1:]
	}
	switch outcome {
	case 8:
		if !errors.Is(err, errBoom) {
			return "c11:error-not-propagated", fmt.Sprintf("Batch returned %v instead of the function's error", err)
		}
	}
	switch outcome {
	case 0, 5, 7:
		if err != nil {
			return "c11:commit-error", fmt.Sprintf("commit returned %v", err)
		}
		w.committed = work
	case 1:
		if !errors.Is(err, errBoom) {
			return "c11:error-not-propagated", fmt.Sprintf("Update returned %v instead of the function's error", err)
		}
	case 9:
		if !errors.Is(err, errBoom) {
			return "c11:error-not-propagated", fmt.Sprintf("View returned %v instead of the function's error", err)
		}
		// the next writing transaction grows the file beyond its current memory map
		// (bbolt must then wait for every open reader to finish)
		big := make([]byte, 48<<10)
		gk := []byte("~grow")
		err = walletdb.Update(w.db, func(tx walletdb.ReadWriteTx) error {
			b := tx.ReadWriteBucket(w.top)
			for i := 0; i < 8; i++ {
				if e := b.Put(append(gk, byte(i)), big); e != nil {
					return e
				}
			}
			for i := 0; i < 8; i++ {
				if e := b.Delete(append(gk, byte(i))); e != nil {
					return e
				}
			}
			return nil
		})
		if err != nil {
			return "c11:commit-error", fmt.Sprintf("growing update after a failed read-only transaction returned %v", err)
		}
		stats["growing-updates-after-a-failed-read-only-transaction"]++
	case 4:
		if err != nil {
			return "c11:rollback-error", err.Error()
		}
	}
	if d := compareTree(w.db, w.top, w.committed); d != "" {
		i := strings.Index(d, "|")
		k := "c11:tree-after-" + names[outcome]
		if d[:i] != "" {
			k = "c11:" + d[:i]
		}
		return k, fmt.Sprintf("after a transaction with outcome %q the database differs from the model: %s", names[outcome], d[i+1:])
	}
	return "", ""
}

func (w *world) reopen() error {
	if err := w.db.Close(); err != nil {
		return err
	}
	db, err := walletdb.Open("bdb", w.path, true, 10*time.Second, false)
	if err != nil {
		return err
	}
	w.db = db
	return nil
}

func sequential(r *evid.Run, dir string, i int, cs int64) {
	rg := rand.New(rand.NewSource(cs))
	w := &world{path: filepath.Join(dir, fmt.Sprintf("kv-%d-%d.db", os.Getpid(), cs)), committed: newMB(), top: []byte("top")}
	db, err := walletdb.Create("bdb", w.path, true, 10*time.Second, false)
	if err != nil {
		r.Inconclusive("create: " + err.Error())
		return
	}
	w.db = db
	abandoned := false
	defer func() {
		if !abandoned {
			w.db.Close()
		}
		os.Remove(w.path)
	}()
	walletdb.Update(db, func(tx walletdb.ReadWriteTx) error { _, err := tx.CreateTopLevelBucket(w.top); return err })
	nprog := 40
	stats := map[string]int{}
	var all []string
	for p := 0; p < nprog; p++ {
		var log []string
		var key, what string
		// single-threaded: if the only goroutine using the database ends up parked on
		// one of bbolt's own locks, an earlier transaction was never ended
		stack, blocked, gaveUp := evid.BlockedUntil([]string{"bbolt.", "walletdb/bdb."}, func() { key, what = w.runProg(rg, &log, stats) }, r.Stopping)
		if gaveUp {
			abandoned = true // in flight when the run was stopped, and making no progress
			break
		}
		if blocked {
			abandoned = true
			r.StopEarly() // every further history would park the same way
			if len(all) > 80 {
				all = all[len(all)-80:]
			}
			r.Violation("c11:database-blocked-after-an-ended-transaction", "the only goroutine using the database is parked on a lock inside the database and its stack does not change: a transaction that was ended (returned, failed or panicked) still holds it\n"+stack, "programs", cs, map[string]any{"program": p, "last_steps": append(all, log...)})
			break
		}
		all = append(all, log...)
		if key != "" {
			if len(all) > 80 {
				all = all[len(all)-80:]
			}
			r.Violation(key, what, "programs", cs, map[string]any{"program": p, "last_steps": all, "what": what})
			break
		}
		r.Case(fmt.Sprint(log), len(log) > 3)
		if rg.Intn(10) == 0 {
			var err error
			stack, blocked, gaveUp := evid.BlockedUntil([]string{"bbolt.", "walletdb/bdb."}, func() { err = w.reopen() }, r.Stopping)
			if gaveUp {
				abandoned = true
				break
			}
			if blocked {
				abandoned = true
				r.StopEarly()
				r.Violation("c11:database-blocked-after-an-ended-transaction", "Close is parked on a lock inside the database and its stack does not change: a transaction that was ended (returned, failed or panicked) still holds it\n"+stack, "programs", cs, map[string]any{"program": p, "last_steps": all})
				break
			}
			if err != nil {
				r.Violation("c11:reopen-error", err.Error(), "programs", cs, nil)
				break
			}
			stats["reopens"]++
			if d := compareTree(w.db, w.top, w.committed); d != "" {
				r.Violation("c11:lost-or-changed-after-reopen", "after close and reopen: "+d, "programs", cs, map[string]any{"last_steps": all})
				break
			}
		}
	}
	for k, v := range stats {
		r.Hit(k, v)
	}
	r.Hit("programs", nprog)
	if r.WantSample() && len(all) > 5 {
		n := len(all)
		if n > 30 {
			n = 30
		}
		r.Sample(map[string]any{"case_seed": cs, "first_steps": all[:n]})
	}
}

// concurrent: writers commit (k1..kn) := (v,..,v) in one Update with unique v;
// readers must always see n equal values, and all readers must observe the
// commits in one total order consistent with commit order.
func concurrent(r *evid.Run, dir string, i int, cs int64) {
	rg := rand.New(rand.NewSource(cs))
	path := filepath.Join(dir, fmt.Sprintf("conc-%d-%d.db", os.Getpid(), cs))
	db, err := walletdb.Create("bdb", path, true, 10*time.Second, false)
	if err != nil {
		r.Inconclusive("create: " + err.Error())
		return
	}
	defer func() { db.Close(); os.Remove(path) }()
	top := []byte("top")
	walletdb.Update(db, func(tx walletdb.ReadWriteTx) error { _, err := tx.CreateTopLevelBucket(top); return err })
	nkeys := 2 + rg.Intn(6)
	nw, nr := 1+rg.Intn(3), 2+rg.Intn(4)
	rounds := 30 + rg.Intn(60)
	var commitOrder []string // appended right after Update returned (under mu)
	var mu sync.Mutex
	var stop int32
	var wg sync.WaitGroup
	var viol atomic.Value
	for wi := 0; wi < nw; wi++ {
		wg.Add(1)
		go func(wi int) {
			defer wg.Done()
			for n := 0; n < rounds; n++ {
				v := fmt.Sprintf("w%d-%d", wi, n)
				fail := n%7 == 3
				err := walletdb.Update(db, func(tx walletdb.ReadWriteTx) error {
					b := tx.ReadWriteBucket(top)
					for k := 0; k < nkeys; k++ {
						if err := b.Put([]byte{byte('a' + k)}, []byte(v)); err != nil {
							return err
						}
						if fail && k == nkeys/2 {
							return errBoom // partial writes must never become visible
						}
					}
					mu.Lock()
					commitOrder = append(commitOrder, v) // still holding the single writer lock: true commit order
					mu.Unlock()
					return nil
				})
				if fail && err == nil || !fail && err != nil {
					viol.Store(fmt.Sprintf("update-result|writer %d round %d: err=%v", wi, n, err))
				}
			}
		}(wi)
	}
	observed := make([][]string, nr)
	var rwg sync.WaitGroup
	for ri := 0; ri < nr; ri++ {
		rwg.Add(1)
		go func(ri int) {
			defer rwg.Done()
			for atomic.LoadInt32(&stop) == 0 {
				walletdb.View(db, func(tx walletdb.ReadTx) error {
					b := tx.ReadBucket(top)
					var first string
					for k := 0; k < nkeys; k++ {
						v := string(b.Get([]byte{byte('a' + k)}))
						if k == 0 {
							first = v
						} else if v != first {
							viol.Store(fmt.Sprintf("torn-read|a reader saw key %d = %q while key 0 = %q inside one read transaction", k, v, first))
						}
					}
					if first != "" && (len(observed[ri]) == 0 || observed[ri][len(observed[ri])-1] != first) {
						observed[ri] = append(observed[ri], first)
					}
					return nil
				})
			}
		}(ri)
	}
	wg.Wait()
	atomic.StoreInt32(&stop, 1)
	rwg.Wait()
	if v := viol.Load(); v != nil {
		s := v.(string)
		i := strings.Index(s, "|")
		r.Violation("c11:concurrent:"+s[:i], s[i+1:], "concurrent", cs, nil)
		return
	}
	// every reader's observation sequence must be a subsequence of the commit order (never a failed tx's value)
	pos := map[string]int{}
	for i, v := range commitOrder {
		pos[v] = i
	}
	seen := 0
	for ri, obs := range observed {
		last := -1
		for _, v := range obs {
			p, ok := pos[v]
			if !ok {
				r.Violation("c11:concurrent:uncommitted-value-visible", fmt.Sprintf("reader %d saw value %q which no committed transaction wrote", ri, v), "concurrent", cs, nil)
				return
			}
			if p < last {
				r.Violation("c11:concurrent:order", fmt.Sprintf("reader %d saw commit %q after a later one", ri, v), "concurrent", cs, nil)
				return
			}
			last = p
			seen++
		}
	}
	r.Hit("concurrent-commits", len(commitOrder))
	r.Hit("concurrent-snapshots-observed", seen)
	r.Case(fmt.Sprintf("conc/%d/%d/%d/%d", nkeys, nw, nr, cs), seen > 0)
}

// topLevel: the life cycle of top-level buckets inside and across transactions:
// look-up, create (returns the existing one), delete, re-create, reads and writes
// through freshly looked-up handles; reads must see the transaction's own writes
// and deletions, a rolled-back transaction leaves nothing.
func topLevel(r *evid.Run, dir string, i int, cs int64) {
	rg := rand.New(rand.NewSource(cs))
	path := filepath.Join(dir, fmt.Sprintf("top-%d-%d.db", os.Getpid(), cs))
	db, err := walletdb.Create("bdb", path, true, 10*time.Second, false)
	if err != nil {
		r.Inconclusive("create: " + err.Error())
		return
	}
	defer func() { db.Close(); os.Remove(path) }()
	names := [][]byte{[]byte("alpha"), []byte("beta"), []byte("g")}
	committed := map[string]map[string]string{}
	clone := func(m map[string]map[string]string) map[string]map[string]string {
		c := map[string]map[string]string{}
		for k, v := range m {
			c[k] = map[string]string{}
			for a, b := range v {
				c[k][a] = b
			}
		}
		return c
	}
	var log []string
	fail := func(key, what string) {
		r.Violation("c11:toplevel:"+key, what, "toplevel", cs, map[string]any{"steps": log, "what": what})
	}
	verify := func(tx walletdb.ReadTx, m map[string]map[string]string, when string) string {
		for _, n := range names {
			b := tx.ReadBucket(n)
			want, ok := m[string(n)]
			if ok != (b != nil) {
				return fmt.Sprintf("presence|%s: top-level bucket %q present=%v, model says %v", when, n, b != nil, ok)
			}
			if !ok {
				continue
			}
			got := map[string]string{}
			b.ForEach(func(k, v []byte) error { got[string(k)] = string(v); return nil })
			if fmt.Sprint(got) != fmt.Sprint(want) {
				return fmt.Sprintf("content|%s: top-level bucket %q holds %v, model %v", when, n, got, want)
			}
			for k, v := range want {
				if string(b.Get([]byte(k))) != v {
					return fmt.Sprintf("content|%s: Get(%q) in top-level bucket %q = %q, model %q", when, k, n, b.Get([]byte(k)), v)
				}
			}
		}
		return ""
	}
	for txn := 0; txn < 12; txn++ {
		work := clone(committed)
		commit := rg.Intn(3) != 0
		var bad string
		err := func() (err error) {
			defer func() {
				if rec := recover(); rec != nil {
					bad = fmt.Sprintf("panic|a legal sequence of top-level bucket operations panicked: %v", rec)
				}
			}()
			return walletdb.Update(db, func(tx walletdb.ReadWriteTx) error {
				for step := 0; step < 4+rg.Intn(10) && bad == ""; step++ {
					n := names[rg.Intn(len(names))]
					switch rg.Intn(5) {
					case 0: // create (or fetch the existing one)
						b, err := tx.CreateTopLevelBucket(n)
						log = append(log, fmt.Sprintf("create %q -> %v", n, err))
						if err != nil || b == nil {
							bad = fmt.Sprintf("create|CreateTopLevelBucket(%q) = %v", n, err)
							break
						}
						if work[string(n)] == nil {
							work[string(n)] = map[string]string{}
						}
					case 1: // delete
						err := tx.DeleteTopLevelBucket(n)
						log = append(log, fmt.Sprintf("delete %q -> %v", n, err))
						_, ok := work[string(n)]
						if ok != (err == nil) {
							bad = fmt.Sprintf("delete|DeleteTopLevelBucket(%q) = %v, model has it: %v", n, err, ok)
							break
						}
						delete(work, string(n))
					default: // look it up and write / delete through the handle
						b := tx.ReadWriteBucket(n)
						m, ok := work[string(n)]
						if ok != (b != nil) {
							bad = fmt.Sprintf("presence|inside the transaction ReadWriteBucket(%q) present=%v, model says %v", n, b != nil, ok)
							break
						}
						if !ok {
							continue
						}
						k := fmt.Sprintf("k%d", rg.Intn(4))
						if rg.Intn(4) == 0 {
							if err := b.Delete([]byte(k)); err != nil {
								bad = "write|" + err.Error()
								break
							}
							delete(m, k)
							log = append(log, fmt.Sprintf("del %q/%s", n, k))
						} else {
							v := fmt.Sprintf("v%d-%d", txn, step)
							if err := b.Put([]byte(k), []byte(v)); err != nil {
								bad = "write|" + err.Error()
								break
							}
							m[k] = v
							log = append(log, fmt.Sprintf("put %q/%s=%s", n, k, v))
						}
					}
					if bad == "" {
						bad = verify(tx, work, "inside the transaction")
					}
				}
				if bad != "" || !commit {
					return errBoom
				}
				return nil
			})
		}()
		if bad != "" {
			j := strings.Index(bad, "|")
			fail(bad[:j], bad[j+1:])
			return
		}
		if commit {
			if err != nil {
				fail("commit", err.Error())
				return
			}
			committed = work
		}
		log = append(log, fmt.Sprintf("-- committed=%v", commit))
		var d string
		walletdb.View(db, func(tx walletdb.ReadTx) error { d = verify(tx, committed, "in a later transaction"); return nil })
		if d != "" {
			j := strings.Index(d, "|")
			fail(d[:j], d[j+1:])
			return
		}
		r.Hit("top-level-bucket-transactions", 1)
	}
	r.Case(fmt.Sprint("toplevel", cs), true)
}

// batches: goroutines call walletdb.Batch at the same time, so that bbolt
// coalesces their functions into shared write transactions; some functions
// fail after writing.  A failing function makes bbolt roll the shared
// transaction back and re-run the others.  Oracle: every Batch that returned
// nil has ALL its keys present with its values (now and after a reopen), every
// Batch that returned an error has none.
func batches(r *evid.Run, dir string, i int, cs int64) {
	rg := rand.New(rand.NewSource(cs))
	path := filepath.Join(dir, fmt.Sprintf("batch-%d-%d.db", os.Getpid(), cs))
	db, err := walletdb.Create("bdb", path, true, 10*time.Second, false)
	if err != nil {
		r.Inconclusive("create: " + err.Error())
		return
	}
	defer func() { db.Close(); os.Remove(path) }()
	top := []byte("top")
	walletdb.Update(db, func(tx walletdb.ReadWriteTx) error { _, err := tx.CreateTopLevelBucket(top); return err })
	ng := 2 + rg.Intn(7)
	rounds := 3 + rg.Intn(6)
	failOdds := 2 + rg.Intn(4)
	type outcome struct {
		keys []string
		val  string
		err  error
		fail bool
		runs int32
	}
	var all []*outcome
	for round := 0; round < rounds; round++ {
		var wg sync.WaitGroup
		start := make(chan struct{})
		for g := 0; g < ng; g++ {
			o := &outcome{val: fmt.Sprintf("v-%d-%d", round, g), fail: rg.Intn(failOdds) == 0}
			for k := 0; k < 1+rg.Intn(3); k++ {
				o.keys = append(o.keys, fmt.Sprintf("k-%d-%d-%d", round, g, k))
			}
			all = append(all, o)
			wg.Add(1)
			go func(o *outcome) {
				defer wg.Done()
				<-start
				o.err = walletdb.Batch(db, func(tx walletdb.ReadWriteTx) error {
					atomic.AddInt32(&o.runs, 1)
					b := tx.ReadWriteBucket(top)
					for _, k := range o.keys {
						if err := b.Put([]byte(k), []byte(o.val)); err != nil {
							return err
						}
					}
					if o.fail {
						return errBoom
					}
					return nil
				})
			}(o)
		}
		close(start)
		wg.Wait()
	}
	check := func(when string) bool {
		var bad string
		walletdb.View(db, func(tx walletdb.ReadTx) error {
			b := tx.ReadBucket(top)
			for _, o := range all {
				for _, k := range o.keys {
					v := b.Get([]byte(k))
					switch {
					case o.err == nil && string(v) != o.val:
						bad = fmt.Sprintf("lost-acknowledged-batch|%s: Batch returned nil (its function ran %d times) but key %q holds %q instead of %q", when, o.runs, k, v, o.val)
					case o.err != nil && v != nil:
						bad = fmt.Sprintf("failed-batch-visible|%s: Batch returned %v but key %q holds %q", when, o.err, k, v)
					}
				}
			}
			return nil
		})
		if bad != "" {
			i := strings.Index(bad, "|")
			r.Violation("c11:batch:"+bad[:i], bad[i+1:], "batches", cs, nil)
			return false
		}
		return true
	}
	reran := 0
	for _, o := range all {
		if o.fail != (o.err != nil) {
			r.Violation("c11:batch:result", fmt.Sprintf("Batch whose function fails=%v returned %v", o.fail, o.err), "batches", cs, nil)
			return
		}
		if o.runs > 1 {
			reran++
		}
	}
	if !check("right after") {
		return
	}
	db.Close()
	db, err = walletdb.Open("bdb", path, true, 10*time.Second, false)
	if err != nil {
		r.Violation("c11:batch:reopen", err.Error(), "batches", cs, nil)
		return
	}
	if !check("after reopen") {
		return
	}
	r.Hit("batch-calls", len(all))
	r.Hit("batch-functions-re-run-after-a-sibling-failed", reran)
	r.Case(fmt.Sprintf("batch/%d/%d/%d", ng, rounds, cs), reran > 0)
}

func main() {
	r := evid.New(P, "exploration")
	r.Rule("random transaction programs (3..42 steps of put / get / delete / create-bucket / create-if-not-exists / descend / delete-bucket / cursor first-next-last-prev + ForEach / seek+next / next-sequence / set-sequence / cursor-delete / cross-namespace put) over arbitrary byte keys (0x00/0xff runs, shared prefixes, random, empty) and values (empty..300 bytes), executed in lock-step on the real walletdb/bdb database and a nested-map model, with outcome drawn from {commit, error, panic, read-only transaction attempting every mutation, manual rollback, manual commit}; every return value and documented error class is compared per step, the whole tree after every outcome and after close+reopen (1 in 10). Concurrent phase: writers commit n keys := unique v in one Update (1 in 7 fails half-way), readers must see n equal values per read transaction, only committed values, in commit order. (d) top-level buckets: create / fetch / delete / re-create / read and write through freshly looked-up handles inside committed and rolled-back transactions, checked inside the transaction after every step and in a later one. (c) batches: 2..8 goroutines call walletdb.Batch simultaneously for several rounds, 1 in 2..5 functions failing after its writes (bbolt then rolls the shared transaction back and re-runs the siblings): every acknowledged Batch has all its keys with its values right after and after reopen, every failed one has none. Non-trivial = program with > 3 logged steps; distinct = distinct step logs.")
	r.Trusted("go.etcd.io/bbolt as the engine below the adapter under test")
	r.Assume("DeleteNestedBucket with an empty name: any error is accepted (bbolt answers differently depending on bucket contents)", "CreateBucketIfNotExists on an existing bucket inside a read-only transaction is not asserted", "empty values are compared by length, never nil-vs-empty")
	dir := r.TempDir("c11")
	defer os.RemoveAll(dir)
	r.Parallel("programs", r.N(60, 2500), evid.Workers(), func(i int, cs int64) { sequential(r, dir, i, cs) })
	r.Parallel("concurrent", r.N(12, 300), 4, func(i int, cs int64) { concurrent(r, dir, i, cs) })
	r.Parallel("toplevel", r.N(20, 400), evid.Workers(), func(i int, cs int64) { topLevel(r, dir, i, cs) })
	r.Require("top-level-bucket-transactions", 100)
	r.Parallel("batches", r.N(12, 300), 4, func(i int, cs int64) { batches(r, dir, i, cs) })
	r.Require("batch-functions-re-run-after-a-sibling-failed", 5)
	r.Require("programs", 1000)
	r.Require("outcome:panic", 50)
	r.Require("outcome:readonly", 50)
	r.Require("growing-updates-after-a-failed-read-only-transaction", 50)
	r.Require("cursor-scans", 500)
	r.Require("seeks-past-the-end-then-prev", 100)
	r.Require("reopens", 20)
	r.Require("concurrent-snapshots-observed", 50)
	os.Exit(r.Finish())
}
