// C12 — a leased output stays out of reach until released or expired.
package main

import (
	"os"

	"verif/internal/evid"
	"verif/internal/ledger"
)

const P = "C12"

func main() {
	r := evid.New(P, "exploration")
	r.Rule("C01's ledger model extended with leases (outpoint -> id, effective expiry) under a fake clock installed through the verif hook; histories interleave see / mine / disconnect / abandon / restart with lease, release (3 ids), clock jumps placed at expiry-1ns, expiry, expiry+1ns, expiry+1s of pending leases, and expiry sweeps; every LockOutput / UnlockOutput result (ErrUnknownOutput, ErrOutputAlreadyLocked, ErrOutputUnlockNotAllowed, returned expiry) and, after every event, ListLockedOutputs, Balance grid, UnspentOutputs are compared with the model. Non-trivial = history in which a lease was taken and the clock probed an expiry; distinct = distinct event sequences.")
	r.Trusted("lnd/clock TestClock", "btcd wire/chainhash", "walletdb/bdb (C11)")
	r.Assume("effective expiry is the persisted whole second (DESIGN O-1); the instant returned by LockOutput is checked separately to equal now+duration", "leasing a credited output already spent by a confirmed transaction is not asserted either way", "ListLockedOutputs is compared only for outputs of currently known transactions")
	n := r.N(400, 4000)
	cfg := ledger.Config{MinSteps: 30, MaxSteps: r.N(100, 160), Leases: true, Reopen: true}
	dir := r.TempDir("c12")
	defer os.RemoveAll(dir)
	r.Parallel("history", n, evid.Workers(), func(i int, cs int64) {
		res := ledger.RunHistory(cfg, cs, dir)
		probes := res.Stats["clock-probe:expiry-1ns"] + res.Stats["clock-probe:at-expiry"] + res.Stats["clock-probe:expiry+1s"] + res.Stats["clock-probe:expiry+1ns"]
		ledger.Record(r, res, "history", cs, res.Stats["leases-taken"] > 0 && probes > 0)
	})
	r.Require("leases-taken", 300)
	r.Require("leases-released", 30)
	r.Require("lease-extended-by-same-id", 10)
	r.Require("clock-probe:at-expiry", 30)
	r.Require("clock-probe:expiry-1ns", 30)
	r.Require("ev:reopen", 30)
	os.Exit(r.Finish())
}
