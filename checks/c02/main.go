// C02 — reorgs converge: state depends on the surviving facts, not on the path.
package main

import (
	"os"

	"verif/internal/evid"
	"verif/internal/ledger"
)

const P = "C02"

func main() {
	r := evid.New(P, "exploration")
	r.Rule("pairwise histories: the reorg-heavy C01 generator drives a store through connect / disconnect-to-height / re-mine-in-other-order-or-block / confirmed-double-spend / abandon cycles; after every disconnect, conflict removal and abandon (and 1 in 8 other prefixes) a SECOND store is built in a fresh database directly from the ledger model's current facts (blocks in height order, unmined parents-first, leases) and the complete observable surface of both stores is compared: balance grid, UnspentOutputs (amount, block, time, coinbase), OutputsToWatch, UnminedTxHashes, TxDetails of every universe transaction, RangeTransactions per block as a set. The event semantics of the first half of the statement are judged by the ledger model after every event. Non-trivial = at least one path comparison after a disconnect or conflict removal; distinct = distinct event sequences.")
	r.Trusted("btcd wire/chainhash", "walletdb/bdb (C11)")
	r.Assume("order of transactions within a block is not compared (the store records insertion order; the property promises none)", "credited outputs have positive value (DESIGN O-6)")
	n := r.N(400, 3500)
	cfg := ledger.Config{MinSteps: 20, MaxSteps: r.N(70, 180), Balance: true, Details: true, Path: true, PathEvery: 8, ReorgHeavy: true, Reopen: true}
	dir := r.TempDir("c02")
	defer os.RemoveAll(dir)
	r.Parallel("history", n, evid.Workers(), func(i int, cs int64) {
		res := ledger.RunHistory(cfg, cs, dir)
		ledger.Record(r, res, "history", cs, res.Stats["path-comparisons"] > 0 && (res.Stats["ev:disconnect"] > 0 || res.Stats["conflict-removed-txs"] > 0))
	})
	r.Require("path-comparisons", 300)
	r.Require("ev:disconnect", 100)
	r.Require("rollback-moved-to-unmined", 100)
	r.Require("rollback-removed-coinbase-chain-txs", 10)
	r.Require("conflict-removed-txs", 20)
	os.Exit(r.Finish())
}
