// C15 — the wallet's view of the chain tip follows the backend through reorgs.
package main

import (
	"errors"
	"fmt"
	"math/rand"
	"os"
	"sort"
	"strings"
	"sync/atomic"
	"time"

	"github.com/btcsuite/btcd/btcutil"
	"github.com/btcsuite/btcd/chaincfg/chainhash"
	"github.com/btcsuite/btcd/wire"
	"github.com/btcsuite/btclog"
	"github.com/btcsuite/btcwallet/chain"
	"github.com/btcsuite/btcwallet/waddrmgr"
	"github.com/btcsuite/btcwallet/wallet"
	"github.com/btcsuite/btcwallet/walletdb"
	"github.com/btcsuite/btcwallet/wtxmgr"

	"verif/internal/evid"
	"verif/internal/fakechain"
	"verif/internal/wh"
)

const P = "C15"

type pay struct {
	tx    *wire.MsgTx
	amt   btcutil.Amount
	known bool // delivered to the wallet at least once
}

type evo struct {
	r      *evid.Run
	rg     *rand.Rand
	cs     int64
	h      *wh.H
	ch     *fakechain.Chain
	pays   map[chainhash.Hash]*pay
	addrs  []btcutil.Address
	first  int32 // lowest height the wallet stores a hash for
	log    []string
	stale  []chain.BlockDisconnected
	window uint32 // recovery window the wallet is opened with (the daemon always uses 250)
	stats  map[string]int
}

func (e *evo) logf(f string, a ...any) { e.log = append(e.log, fmt.Sprintf(f, a...)) }

func (e *evo) fail(key, what string) bool {
	n := len(e.log)
	lg := e.log
	if n > 120 {
		lg = lg[n-120:]
	}
	e.r.Violation(key, what, "evolution", e.cs, map[string]any{"steps": lg, "what": what})
	return true
}

func (e *evo) newPay() *wire.MsgTx {
	a := e.addrs[e.rg.Intn(len(e.addrs))]
	amt := int64(10000 + e.rg.Intn(1000000))
	tx := e.h.PayTo(a, amt)
	e.pays[tx.TxHash()] = &pay{tx: tx, amt: btcutil.Amount(amt)}
	return tx
}

// blockTxs picks transactions for a new block: some mempool (previously
// reorged-out or unconfirmed) wallet payments plus new ones.
func (e *evo) blockTxs() []*wire.MsgTx {
	var txs []*wire.MsgTx
	// candidates: wallet payments that are not on the best chain at the moment.
	// (Taken from the harness's own books, not from the node's mempool: the
	// wallet's detached rebroadcast goroutine writes to that mempool at times of
	// its own choosing, and the generated history must not depend on them.)
	onChain := map[chainhash.Hash]bool{}
	for hh := int32(0); hh <= e.ch.Height(); hh++ {
		for _, t := range e.ch.BlockAt(hh).Transactions[1:] {
			onChain[t.TxHash()] = true
		}
	}
	var pool []chainhash.Hash
	for h := range e.pays {
		if !onChain[h] {
			pool = append(pool, h)
		}
	}
	sort.Slice(pool, func(i, j int) bool { return pool[i].String() < pool[j].String() })
	for _, h := range pool {
		if e.rg.Intn(2) == 0 {
			txs = append(txs, e.pays[h].tx)
		}
	}
	for i := 0; i < e.rg.Intn(3); i++ {
		txs = append(txs, e.newPay())
	}
	return txs
}

// judgeMid is the part of the oracle that holds at ANY quiescent moment, also
// half-way through a reorg (after the disconnects, before or between the
// connects): the wallet's synced-to block is a block of the backend's best
// chain, not above its tip.
func (e *evo) judgeMid(after string) bool {
	w := e.h.W
	if w == nil || !w.ChainSynced() {
		return false
	}
	e.ch.Barrier()
	e.stats["mid-reorg-judgements"]++
	_, tip, _ := e.ch.GetBestBlock()
	st := w.Manager.SyncedTo()
	if st.Height > tip {
		return e.fail("c15:synced-above-backend-tip", fmt.Sprintf("%s: wallet synced-to height %d is above the backend tip %d", after, st.Height, tip))
	}
	want, _ := e.ch.GetBlockHash(int64(st.Height))
	if want == nil || st.Hash != *want {
		return e.fail("c15:synced-to-block-off-best-chain", fmt.Sprintf("%s: wallet synced-to block %v at height %d is not on the backend's best chain (which has %v there, tip %d)", after, st.Hash, st.Height, want, tip))
	}
	return false
}

// judge compares the wallet with the backend's best chain.
func (e *evo) judge(after string) bool {
	w := e.h.W
	if w == nil || !w.ChainSynced() {
		return false
	}
	e.stats["judgements"]++
	_, tip, _ := e.ch.GetBestBlock()
	th, _ := e.ch.GetBlockHash(int64(tip))
	st := w.Manager.SyncedTo()
	if st.Height != tip {
		return e.fail("c15:synced-height-wrong", fmt.Sprintf("after %s: wallet synced-to height %d, backend tip %d", after, st.Height, tip))
	}
	if st.Hash != *th {
		return e.fail("c15:synced-hash-wrong", fmt.Sprintf("after %s: wallet synced-to hash %v at height %d, backend tip hash %v", after, st.Hash, st.Height, th))
	}
	var bad string
	e.h.ViewAddr(func(ns walletdb.ReadBucket) error {
		for h := e.first; h <= tip; h++ {
			got, err := w.Manager.BlockHash(ns, h)
			want, _ := e.ch.GetBlockHash(int64(h))
			e.stats["hashes-compared"]++
			if err != nil {
				bad = fmt.Sprintf("after %s: no hash remembered for height %d (window starts at %d, tip %d): %v", after, h, e.first, tip, err)
				return nil
			}
			if *got != *want {
				bad = fmt.Sprintf("after %s: hash remembered for height %d is %v, best chain has %v (tip %d)", after, h, got, want, tip)
				return nil
			}
		}
		return nil
	})
	if bad != "" {
		return e.fail("c15:remembered-hash-wrong", bad)
	}
	// no transaction reported confirmed in a block that is not on the best chain
	confirmed := map[chainhash.Hash]bool{}
	e.h.ViewTx(func(ns walletdb.ReadBucket) error {
		return w.TxStore.RangeTransactions(ns, 0, tip+100, func(ds []wtxmgr.TxDetails) (bool, error) {
			for _, d := range ds {
				e.stats["tx-block-fields-checked"]++
				hh, on := e.ch.OnBest(d.Block.Hash)
				if !on || hh != d.Block.Height {
					bad = fmt.Sprintf("after %s: transaction %v is reported confirmed in block %v (height %d) which is not on the backend's best chain", after, d.Hash, d.Block.Hash, d.Block.Height)
					return true, nil
				}
				found := false
				for _, t := range e.ch.BlockAt(hh).Transactions {
					if t.TxHash() == d.Hash {
						found = true
					}
				}
				if !found {
					bad = fmt.Sprintf("after %s: transaction %v reported in block %d which does not contain it", after, d.Hash, hh)
					return true, nil
				}
				confirmed[d.Hash] = true
			}
			return false, nil
		})
	})
	if bad != "" {
		return e.fail("c15:tx-confirmed-off-chain", bad)
	}
	// balances against the backend's ledger
	var wantConf, wantAll btcutil.Amount
	onChain := map[chainhash.Hash]bool{}
	for h := int32(1); h <= tip; h++ {
		for _, t := range e.ch.BlockAt(h).Transactions {
			if p, ok := e.pays[t.TxHash()]; ok {
				wantConf += p.amt
				onChain[t.TxHash()] = true
				if !confirmed[t.TxHash()] {
					return e.fail("c15:confirmed-tx-missing", fmt.Sprintf("after %s: payment %v is in best-chain block %d but the wallet does not report it confirmed", after, t.TxHash(), h))
				}
			}
		}
	}
	wantAll = wantConf
	for h, p := range e.pays {
		if p.known && !onChain[h] {
			wantAll += p.amt
		}
	}
	b1, err := w.CalculateBalance(1)
	if err != nil || b1 != wantConf {
		return e.fail("c15:confirmed-balance-wrong", fmt.Sprintf("after %s: CalculateBalance(1) = %v (err %v), payments on the best chain total %v", after, b1, err, wantConf))
	}
	b0, err := w.CalculateBalance(0)
	if err != nil || b0 != wantAll {
		// diagnosis: which unconfirmed transactions does the wallet hold that the ledger does not expect (or vice versa)
		e.h.ViewTx(func(ns walletdb.ReadBucket) error {
			hs, _ := w.TxStore.UnminedTxHashes(ns)
			have := map[chainhash.Hash]bool{}
			for _, x := range hs {
				have[*x] = true
				p := e.pays[*x]
				if p == nil || !p.known || onChain[*x] {
					e.logf("  wallet holds unconfirmed %v (amt %v) - ledger: known=%v onBestChain=%v", x, p.amt, p != nil && p.known, onChain[*x])
				}
			}
			for hh, p := range e.pays {
				if p.known && !onChain[hh] && !have[hh] {
					e.logf("  ledger expects unconfirmed %v (amt %v) which the wallet does not hold", hh, p.amt)
				}
			}
			return nil
		})
		return e.fail("c15:total-balance-wrong", fmt.Sprintf("after %s: CalculateBalance(0) = %v (err %v), best-chain plus known unconfirmed payments total %v", after, b0, err, wantAll))
	}
	return false
}

func (e *evo) markKnownOnChain() {
	_, tip, _ := e.ch.GetBestBlock()
	for h := int32(1); h <= tip; h++ {
		for _, t := range e.ch.BlockAt(h).Transactions {
			if p, ok := e.pays[t.TxHash()]; ok {
				p.known = true
			}
		}
	}
}

func (e *evo) open() error {
	err := e.h.Open(e.window, false)
	if err != nil {
		return err
	}
	e.markKnownOnChain()
	return nil
}

func runEvolution(r *evid.Run, dir string, cs int64) {
	rg := rand.New(rand.NewSource(cs))
	params := wh.Params(5)
	ch := fakechain.New(params)
	ch.Style = rg.Intn(2)
	// The wallet's rebroadcast goroutine offers its unconfirmed transactions to the
	// backend at times of its own choosing; an "already confirmed" answer makes it
	// drop the transaction, and that answer can be stale by the time it is acted on
	// when a reorg follows at once (which these histories do all the time).  C15 is
	// about notifications, not broadcast answers (C20 is): every hand-over gets the
	// neutral answer "already in mempool", which changes nothing in the wallet.
	ch.SendHook = func(*wire.MsgTx) error { return chain.ErrTxAlreadyInMempool }
	pre := 8 + rg.Intn(10)
	for i := 0; i < pre; i++ {
		ch.Extend()
	}
	bheight := int32(2 + rg.Intn(3))
	h, err := wh.New(rg, dir, params, nil, ch, ch.BlockAt(bheight).Header.Timestamp)
	if err != nil {
		r.Inconclusive("harness: " + err.Error())
		return
	}
	defer h.Close()
	e := &evo{r: r, rg: rg, cs: cs, h: h, ch: ch, pays: map[chainhash.Hash]*pay{}, stats: map[string]int{}, window: []uint32{0, 3, 250}[rg.Intn(3)]}
	defer func() {
		for k, v := range e.stats {
			r.Hit(k, v)
		}
	}()
	e.logf("chain of %d blocks, style %d, creation time = time of block %d", pre, ch.Style, bheight)
	if err := e.open(); err != nil {
		if errors.Is(err, wh.ErrNotSynced) {
			r.Inconclusive("initial sync watchdog")
			return
		}
		e.fail("c15:open-failed", err.Error())
		return
	}
	bb, err := h.W.BirthdayBlock()
	if err != nil {
		e.fail("c15:no-birthday-block", err.Error())
		return
	}
	e.first = bb.Height
	for i := 0; i < 3; i++ {
		sc := []waddrmgr.KeyScope{waddrmgr.KeyScopeBIP0084, waddrmgr.KeyScopeBIP0044, waddrmgr.KeyScopeBIP0086}[i]
		a, err := h.W.NewAddress(0, sc)
		if err != nil {
			e.fail("c15:newaddress", err.Error())
			return
		}
		e.addrs = append(e.addrs, a)
	}
	if e.judge("initial sync") {
		return
	}
	nsteps := 25 + rg.Intn(r.N(50, 200))
	for s := 0; s < nsteps; s++ {
		var after string
		switch k := rg.Intn(20); {
		case k < 7: // extend
			n := 1 + rg.Intn(5)
			for i := 0; i < n; i++ {
				txs := e.blockTxs()
				ch.Extend(txs...)
				for _, t := range txs {
					e.pays[t.TxHash()].known = true
				}
				ch.NotifyConnect(int(ch.Height()))
			}
			after = fmt.Sprintf("extend by %d to %d", n, ch.Height())
			e.stats["extensions"]++
		case k < 12: // reorg
			tip := ch.Height()
			maxd := int(tip - e.first - 1)
			if maxd < 1 {
				continue
			}
			if maxd > 12 {
				maxd = 12
			}
			d := 1 + rg.Intn(maxd)
			newLen := d + rg.Intn(3)
			txsAt := map[int][]*wire.MsgTx{}
			// decide the winning branch's contents up front: it may re-include
			// payments of the losing branch in other blocks, or leave them out
			fork := int(tip) - d + 1
			var losing []*wire.MsgTx
			for hh := fork; hh <= int(tip); hh++ {
				for _, t := range ch.BlockAt(int32(hh)).Transactions[1:] {
					if _, ok := e.pays[t.TxHash()]; ok {
						losing = append(losing, t)
					}
				}
			}
			for _, t := range losing {
				if rg.Intn(2) == 0 {
					at := fork + rg.Intn(newLen)
					txsAt[at] = append(txsAt[at], t)
				}
			}
			for i := 0; i < rg.Intn(3); i++ {
				at := fork + rg.Intn(newLen)
				t := e.newPay()
				e.pays[t.TxHash()].known = true
				txsAt[at] = append(txsAt[at], t)
			}
			discs, _ := ch.ReorgSilent(d, newLen, txsAt)
			e.stale = discs
			for _, dn := range discs {
				ch.Send(dn)
				if rg.Intn(6) == 0 {
					ch.Send(dn) // repeated disconnect
					e.stats["repeated-disconnects"]++
				}
			}
			// mid-reorg: the wallet's tip is now below the fork; a disconnect of an
			// old-branch block (any height up to the old tip) is delivered once more
			// before the new branch connects
			if rg.Intn(3) == 0 {
				ch.Send(discs[rg.Intn(len(discs))])
				e.stats["disconnects-repeated-mid-reorg"]++
				if e.judgeMid(fmt.Sprintf("reorg depth %d: all disconnects delivered, one of them repeated, new branch not yet connected", d)) {
					return
				}
			}
			// the new branch may arrive in two instalments with a repeated old
			// disconnect in between (the wallet's chain is then shorter than the
			// highest block it ever stored)
			split := int(ch.Height()) + 1
			if rg.Intn(3) == 0 {
				split = fork + rg.Intn(int(ch.Height())-fork+1)
			}
			for hh := fork; hh <= int(ch.Height()); hh++ {
				if hh == split {
					ch.Send(discs[rg.Intn(len(discs))])
					e.stats["disconnects-repeated-mid-reorg"]++
					if e.judgeMid(fmt.Sprintf("reorg depth %d: new branch connected up to %d, then an old-branch disconnect repeated", d, hh-1)) {
						return
					}
				}
				ch.NotifyConnect(hh)
			}
			after = fmt.Sprintf("reorg depth %d -> %d new blocks (tip %d), %d wallet txs in the losing branch, re-included %d", d, newLen, ch.Height(), len(losing), len(txsAt))
			e.stats["reorgs"]++
			e.stats[fmt.Sprintf("reorg-depth-%d", d)]++
			if len(losing) > 0 {
				e.stats["reorgs-affecting-wallet-txs"]++
			}
		case k < 14: // unconfirmed payment
			t := e.newPay()
			if ch.NotifyTx(t, ch.BlockAt(ch.Height()).Header.Timestamp) {
				e.pays[t.TxHash()].known = true
			}
			after = "unconfirmed payment"
		case k < 16: // repeated / stale notifications
			switch rg.Intn(3) {
			case 0:
				tip := int(ch.Height())
				b := ch.BlockAt(int32(tip))
				ch.Send(chain.BlockConnected(wtxmgr.BlockMeta{Block: wtxmgr.Block{Hash: b.BlockHash(), Height: int32(tip)}, Time: b.Header.Timestamp}))
				after = "repeated BlockConnected(tip)"
			case 1:
				if len(e.stale) == 0 {
					continue
				}
				ch.Send(e.stale[rg.Intn(len(e.stale))])
				after = "stale BlockDisconnected (block already replaced)"
			case 2:
				var hh chainhash.Hash
				rg.Read(hh[:])
				ch.Send(chain.BlockDisconnected(wtxmgr.BlockMeta{Block: wtxmgr.Block{Hash: hh, Height: ch.Height() - int32(rg.Intn(2))}}))
				after = "BlockDisconnected for an unknown hash"
			}
			e.stats["repeated-or-stale-notifications"]++
		default: // restart, chain evolves while stopped
			// sometimes the wallet still sees the top blocks detached, is stopped, and
			// the best chain ends up on those very blocks again (plus whatever happens
			// next): leftovers of what it rolled back now match the backend
			returned := 0
			if rg.Intn(5) == 0 {
				tip := int(ch.Height())
				maxd := tip - int(e.first) - 1
				if maxd > 3 {
					maxd = 3
				}
				if maxd >= 1 {
					returned = 1 + rg.Intn(maxd)
					for hh := tip; hh > tip-returned; hh-- {
						ch.Send(ch.DisconnectedAt(hh))
					}
					ch.Barrier()
					e.stats["detached-blocks-returning-while-stopped"]++
				}
			}
			h.Stop()
			var what string
			switch rg.Intn(4) {
			case 0:
				what = "nothing"
			case 1:
				n := 1 + rg.Intn(4)
				for i := 0; i < n; i++ {
					ch.Extend(e.blockTxs()...)
				}
				what = fmt.Sprintf("extended by %d", n)
			default:
				tip := ch.Height()
				maxd := int(tip - e.first - 1)
				if maxd > 8 {
					maxd = 8
				}
				if maxd >= 1 {
					d := 1 + rg.Intn(maxd)
					txsAt := map[int][]*wire.MsgTx{}
					fork := int(tip) - d + 1
					nl := d + rg.Intn(3)
					for hh := fork; hh <= int(tip); hh++ {
						for _, t := range ch.BlockAt(int32(hh)).Transactions[1:] {
							if _, ok := e.pays[t.TxHash()]; ok && rg.Intn(2) == 0 {
								at := fork + rg.Intn(nl)
								txsAt[at] = append(txsAt[at], t)
							}
						}
					}
					ch.ReorgSilent(d, nl, txsAt)
					what = fmt.Sprintf("reorg depth %d while stopped", d)
					e.stats["offline-reorgs"]++
				}
			}
			var afterRescanDone chan struct{}
			if k := rg.Intn(4); k == 0 {
				// the best chain is reorganised while the startup rescan is running:
				// the wallet ignores the disconnects at that stage (by design) and only
				// learns of the new branch through its BlockConnected notifications,
				// which replace blocks at heights it has already connected.  Only
				// blocks without wallet payments are replaced (the transaction store
				// is not rolled back by an ignored disconnect).
				tip := int(ch.Height())
				d := 0
				for d < 3 && tip-d > int(e.first)+1 {
					has := false
					for _, t := range ch.BlockAt(int32(tip - d)).Transactions[1:] {
						if _, ok := e.pays[t.TxHash()]; ok {
							has = true
						}
					}
					if has {
						break
					}
					d++
				}
				if d > 0 {
					depth := 1 + rg.Intn(d)
					newLen := depth + 1 + rg.Intn(2)
					ch.DuringRescan = func() {
						ch.DuringRescan = nil
						discs, _ := ch.ReorgSilent(depth, newLen, map[int][]*wire.MsgTx{})
						for _, dn := range discs {
							ch.Send(dn)
						}
						for hh := tip - depth + 1; hh <= int(ch.Height()); hh++ {
							ch.NotifyConnect(hh)
						}
					}
					what += fmt.Sprintf(" + reorg of depth %d (%d new blocks) during the startup rescan", depth, newLen)
					e.stats["reorgs-during-rescan"]++
				}
			} else if k == 2 {
				// the backend's very next notifications after RescanFinished are a
				// reorg (wallet payments in the detached blocks allowed: from that
				// notification on the wallet must treat disconnects normally)
				tip := int(ch.Height())
				maxd := tip - int(e.first) - 1
				if maxd > 3 {
					maxd = 3
				}
				if maxd >= 1 {
					depth := 1 + rg.Intn(maxd)
					newLen := depth + rg.Intn(2)
					done := make(chan struct{})
					afterRescanDone = done
					ch.AfterRescan = func() {
						defer close(done)
						ch.AfterRescan = nil
						// one no-op first: once the wallet has taken it, it has finished
						// processing RescanFinished (its queries about the rescanned range are
						// answered from the chain as it was); only then does the chain change
						ch.Send(fakechain.Noop{})
						e.markKnownOnChain() // what the rescan has shown the wallet
						discs, _ := ch.ReorgSilent(depth, newLen, map[int][]*wire.MsgTx{})
						for _, dn := range discs {
							ch.Send(dn)
						}
						for hh := tip - depth + 1; hh <= int(ch.Height()); hh++ {
							ch.NotifyConnect(hh)
						}
					}
					what += fmt.Sprintf(" + reorg of depth %d (%d new blocks) delivered right behind RescanFinished", depth, newLen)
					e.stats["reorgs-right-behind-rescan-finished"]++
				}
			} else if k == 1 {
				// a block arrives while the startup rescan is running
				ch.DuringRescan = func() {
					ch.DuringRescan = nil
					ch.Extend(e.blockTxs()...)
					ch.NotifyConnect(int(ch.Height()))
				}
				what += " + block connected during the startup rescan"
				e.stats["blocks-during-rescan"]++
			}
			// a transient backend failure during the start-up synchronisation (one
			// FilterBlocks request of the recovery fails): the wallet retries, and the
			// retry must get through
			faulted := false
			if e.window > 0 && afterRescanDone == nil && ch.DuringRescan == nil && rg.Intn(3) == 0 {
				var once int32
				ch.FilterHook = func(int) error {
					if atomic.CompareAndSwapInt32(&once, 0, 1) {
						return errors.New("injected transient FilterBlocks failure")
					}
					return nil
				}
				faulted = true
				what += " + one failing FilterBlocks request during the start-up recovery"
			}
			best0, fails0 := ch.BestCalls(), atomic.LoadInt64(&syncFailures)
			openDone := make(chan error, 1)
			go func() { openDone <- e.open() }()
			var err error
		waitOpen:
			for {
				select {
				case err = <-openDone:
					break waitOpen
				case <-time.After(50 * time.Millisecond):
					// decided on logical steps: one synchronisation attempt asks for the best
					// block a handful of times; thousands of calls are a retry storm
					n, fl := ch.BestCalls()-best0, atomic.LoadInt64(&syncFailures)-fails0
					if n > 3000 || fl > 4000 {
						ch.FilterHook = nil
						h.Abandon()
						e.fail("c15:sync-never-completes", fmt.Sprintf("restart (%s): the wallet keeps failing to synchronise and retrying (%d GetBestBlock calls and %d logged sync failures in this process since the restart; last: %s)", what, n, fl, lastSyncFailure.Load()))
						return
					}
				}
			}
			ch.FilterHook = nil
			if faulted {
				e.stats["restarts-with-a-transient-backend-failure"]++
			}
			if err != nil {
				if errors.Is(err, wh.ErrNotSynced) {
					r.Inconclusive("resync watchdog")
					return
				}
				e.fail("c15:reopen-failed", fmt.Sprintf("restart (%s): %v", what, err))
				return
			}
			if afterRescanDone != nil {
				<-afterRescanDone // the notifications behind RescanFinished have all been delivered
				afterRescanDone = nil
			}
			if returned > 0 {
				what = fmt.Sprintf("the top %d blocks, detached just before the stop, attached again; ", returned) + what
			}
			after = "restart; while stopped: " + what
			e.stats["restarts"]++
		}
		e.logf("%s", after)
		if !ch.Barrier() {
			return
		}
		if e.judge(after) {
			return
		}
	}
	r.Case(fmt.Sprint(e.log), e.stats["reorgs"] > 0)
	if r.WantSample() && len(e.log) < 45 {
		r.Sample(map[string]any{"case_seed": cs, "steps": e.log})
	}
}

// syncFailures counts the wallet package's "unable to synchronize, trying again"
// log lines of this process (a logical step counter for retry storms).
var syncFailures int64
var lastSyncFailure atomic.Value

type failCounter struct{}

func (failCounter) Write(p []byte) (int, error) {
	if strings.Contains(string(p), "Unable to synchronize wallet to chain") {
		atomic.AddInt64(&syncFailures, 1)
		lastSyncFailure.Store(strings.TrimSpace(string(p)))
	}
	return len(p), nil
}

func main() {
	lastSyncFailure.Store("")
	lg := btclog.NewBackend(failCounter{}).Logger("WLLT")
	lg.SetLevel(btclog.LevelError)
	wallet.UseLogger(lg)
	r := evid.New(P, "exploration")
	r.Rule("(wallets are opened with a recovery window of 0, 3 or 250 -- the daemon always uses 250 -- chosen per evolution) generated chain evolutions fed to a complete wallet.Wallet through an in-memory chain.Interface (both delivery styles: btcd RelevantTx+BlockConnected, bitcoind/neutrino FilteredBlockConnected+BlockConnected): extensions by 1..5 blocks, reorgs of depth 1..12 within the stored window (new branch equal or longer), wallet payments placed in the losing branch, re-included at other heights of the winning branch or left unconfirmed, unconfirmed payments, repeated BlockConnected(tip), repeated / stale / unknown-hash BlockDisconnected (also re-delivered half-way through a reorg: after all disconnects, or between two instalments of the new branch, where the synced-to block must already be a best-chain block), restarts with the chain unchanged / extended / reorganised while the wallet was stopped, a block connected while the startup rescan is still running, and a reorg of payment-free tip blocks (depth 1..3, longer new branch) delivered while the startup rescan is still running, and a reorg delivered as the very next notifications after RescanFinished. After EVERY step (deterministic two-no-op barrier) the backend's best chain is the oracle: SyncedTo = tip (height and hash), BlockHash(h) = best-chain hash for every stored height up to the tip, every transaction reported with a block names a best-chain block that contains it, every best-chain payment is reported confirmed, CalculateBalance(1) and (0) equal the backend ledger. Non-trivial = evolution with at least one reorg; distinct = distinct step sequences.")
	r.Trusted("fakechain (harness) as the definition of the best chain")
	r.Assume("reorgs never reach below the first block the wallet stored (outside 'within the window')", "hashes above the tip are not inspected", "assertions start after RescanFinished (the wallet ignores disconnects before that by design)", "repeated BlockConnected is only sent for the current tip")
	dir := r.TempDir("c15")
	defer os.RemoveAll(dir)
	r.Parallel("evolution", r.N(40, 800), evid.Workers(), func(i int, cs int64) { runEvolution(r, dir, cs) })
	r.Require("judgements", 800)
	r.Require("reorgs", 100)
	r.Require("reorgs-affecting-wallet-txs", 20)
	r.Require("restarts", 50)
	r.Require("offline-reorgs", 10)
	r.Require("detached-blocks-returning-while-stopped", 5)
	r.Require("blocks-during-rescan", 5)
	os.Exit(r.Finish())
}
