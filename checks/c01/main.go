// C01 — balance and spendable outputs equal the ledger truth after every event.
package main

import (
	"os"

	"verif/internal/evid"
	"verif/internal/ledger"
)

const P = "C01"

func main() {
	r := evid.New(P, "exploration")
	r.Rule("random chain-consistent event histories over a lazily generated transaction universe (chains, fan-in/out, multi-edges, conflict groups, coinbases, several credits per tx, gaps between blocks): see / mine (known, brand-new, confirmed double spend) / disconnect-to-height (incl. no-op, everything, gap heights, repeated) / abandon / repeated delivery / repeated credit marking / restart; a second phase interleaves lease / release / clock-advance / expiry-sweep events (fake clock through the wtxmgr hook) for the 'not leased' clause; after EVERY event and after every transaction of a block the real store is queried (Balance over a minconf x syncHeight grid, UnspentOutputs, OutputsToWatch, UnminedTxHashes) and compared with a ledger model that recomputes everything from facts. A history is non-trivial if it contains at least one disconnect or conflict removal; distinct = distinct event-kind sequences.")
	r.Trusted("btcd wire/chainhash (tx hashing)", "walletdb/bdb as the storage engine (judged separately by C11)")
	r.Assume("credited outputs have positive value (property wording; zero-value credits are DESIGN O-6)", "sync heights below the highest mined block are never queried (documented caveat of Balance)", "histories are chain-consistent: no child confirmed before its parent, no two confirmed conflicting transactions, no unconfirmed transaction conflicting with the chain")
	n := r.N(400, 4000)
	cfg := ledger.Config{MinSteps: 20, MaxSteps: r.N(80, 200), Balance: true, Reopen: true}
	dir := r.TempDir("c01")
	defer os.RemoveAll(dir)
	r.Parallel("history", n, evid.Workers(), func(i int, cs int64) {
		c := cfg
		c.ReorgHeavy = cs%3 == 0
		res := ledger.RunHistory(c, cs, dir)
		ledger.Record(r, res, "history", cs, res.Stats["ev:disconnect"] > 0 || res.Stats["conflict-removed-txs"] > 0)
	})
	// "... that are not leased": the same histories with lease / release / clock /
	// sweep events interleaved (fake clock through the wtxmgr hook)
	lcfg := ledger.Config{MinSteps: 20, MaxSteps: r.N(80, 160), Balance: true, Leases: true, Reopen: true}
	r.Parallel("leased", r.N(50, 1000), evid.Workers(), func(i int, cs int64) {
		res := ledger.RunHistory(lcfg, cs, dir)
		ledger.Record(r, res, "leased", cs, res.Stats["ev:lease"] > 0)
	})
	r.Require("ev:lease", 50)
	r.Require("events", 1000)
	r.Require("balance-queries", 10000)
	r.Require("ev:disconnect", 50)
	r.Require("conflict-removed-txs", 10)
	r.Require("rollback-removed-coinbase-chain-txs", 5)
	os.Exit(r.Finish())
}
