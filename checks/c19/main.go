// C19 — database upgrades apply each pending migration once, in order, or not at all.
package main

import (
	"encoding/binary"
	"errors"
	"fmt"
	"math/rand"
	"os"
	"path/filepath"
	"sort"
	"strings"
	"time"

	"github.com/btcsuite/btcd/btcutil/hdkeychain"
	"github.com/btcsuite/btcd/chaincfg"
	"github.com/btcsuite/btcd/wire"
	"github.com/btcsuite/btcwallet/snacl"
	"github.com/btcsuite/btcwallet/waddrmgr"
	"github.com/btcsuite/btcwallet/wallet"
	"github.com/btcsuite/btcwallet/walletdb"
	_ "github.com/btcsuite/btcwallet/walletdb/bdb"
	"github.com/btcsuite/btcwallet/walletdb/migration"
	"github.com/btcsuite/btcwallet/wtxmgr"

	"verif/internal/evid"
	"verif/internal/vdb"
)

const P = "C19"

// recMgr is a migration.Manager over a real bdb namespace that records every
// migration invocation.
type recMgr struct {
	name     string
	ns       walletdb.ReadWriteBucket
	versions []migration.Version
	fresh    bool // hand out a fresh copy of the table on every Versions() call
	setCalls *[]uint32
}

func (m *recMgr) Name() string                        { return m.name }
func (m *recMgr) Namespace() walletdb.ReadWriteBucket { return m.ns }
func (m *recMgr) Versions() []migration.Version {
	if m.fresh {
		return append([]migration.Version(nil), m.versions...)
	}
	return m.versions
}
func (m *recMgr) CurrentVersion(walletdb.ReadBucket) (uint32, error) {
	v := m.ns.Get([]byte("v"))
	if v == nil {
		return 0, nil
	}
	return binary.BigEndian.Uint32(v), nil
}
func (m *recMgr) SetVersion(_ walletdb.ReadWriteBucket, v uint32) error {
	*m.setCalls = append(*m.setCalls, v)
	var b [4]byte
	binary.BigEndian.PutUint32(b[:], v)
	return m.ns.Put([]byte("v"), b[:])
}

func dump(b walletdb.ReadBucket, prefix string, out *[]string) {
	if b == nil {
		return
	}
	b.ForEach(func(k, v []byte) error {
		if v == nil {
			*out = append(*out, fmt.Sprintf("%s%x/", prefix, k))
			dump(b.NestedReadBucket(k), prefix+fmt.Sprintf("%x/", k), out)
		} else {
			*out = append(*out, fmt.Sprintf("%s%x=%x", prefix, k, v))
		}
		return nil
	})
}

func dumpDB(db walletdb.DB, top ...[]byte) string {
	var out []string
	walletdb.View(db, func(tx walletdb.ReadTx) error {
		for _, t := range top {
			out = append(out, fmt.Sprintf("== %s", t))
			dump(tx.ReadBucket(t), "", &out)
		}
		return nil
	})
	return strings.Join(out, "\n")
}

// tableCase: one version table x stored version x failing position.
func tableCase(r *evid.Run, db walletdb.DB, rg *rand.Rand, idx int, cs int64) {
	nv := 1 + rg.Intn(12)
	nums := rg.Perm(16)[:nv] // distinct numbers 1..16 in random (declared) order
	for i := range nums {
		nums[i]++
	}
	sorted := append([]int(nil), nums...)
	sort.Ints(sorted)
	latest := uint32(sorted[len(sorted)-1])
	var stored uint32
	switch rg.Intn(5) {
	case 0:
		stored = latest
	case 1:
		stored = latest + 1 + uint32(rg.Intn(3))
	case 2:
		stored = 0
	default:
		stored = uint32(rg.Intn(int(latest) + 1))
	}
	nilNums := map[uint32]bool{}
	for _, n := range nums {
		if rg.Intn(5) == 0 {
			nilNums[uint32(n)] = true
		}
	}
	// the migrations that must run, in order
	var pending []uint32
	for _, n := range sorted {
		if uint32(n) > stored && stored <= latest {
			pending = append(pending, uint32(n))
		}
	}
	var runnable []uint32
	for _, n := range pending {
		if !nilNums[n] {
			runnable = append(runnable, n)
		}
	}
	fresh := rg.Intn(2) == 0
	// the wallet upgrades several services in ONE call (Upgrade(txmgr, addrmgr)):
	// sometimes an up-to-date service precedes the table under test and/or a
	// service with one pending migration follows it
	withPre, withPost := rg.Intn(3) == 0, rg.Intn(3) == 0
	// failure position: -1 = none, else index into runnable — every position enumerated
	for failPos := -1; failPos < len(runnable); failPos++ {
		// a migration can also fail by panicking (the wallet runs upgrades inside
		// walletdb.Update, whose contract is to roll back then)
		panics := failPos >= 0 && rg.Intn(3) == 0
		var calls, setCalls []uint32
		failAt := uint32(0)
		if failPos >= 0 {
			failAt = runnable[failPos]
		}
		var vs []migration.Version
		for _, n := range nums {
			n := uint32(n)
			if nilNums[n] {
				vs = append(vs, migration.Version{Number: n})
				continue
			}
			vs = append(vs, migration.Version{Number: n, Migration: func(b walletdb.ReadWriteBucket) error {
				calls = append(calls, n)
				if err := b.Put([]byte{'d', byte(n)}, []byte{byte(len(calls))}); err != nil {
					return err
				}
				if n == failAt {
					if panics {
						panic("boom")
					}
					return errors.New("boom")
				}
				return nil
			}})
		}
		bk := []byte(fmt.Sprintf("ns-%d-%d", idx, failPos+1))
		walletdb.Update(db, func(tx walletdb.ReadWriteTx) error {
			b, err := tx.CreateTopLevelBucket(bk)
			if err != nil {
				return err
			}
			var v [4]byte
			binary.BigEndian.PutUint32(v[:], stored)
			b.Put([]byte("pre-existing"), []byte("data"))
			return b.Put([]byte("v"), v[:])
		})
		var preCalls, postCalls, preSet, postSet []uint32
		walletdb.Update(db, func(tx walletdb.ReadWriteTx) error {
			b := tx.ReadWriteBucket(bk)
			for name, v := range map[string]byte{"pre": 3, "post": 1} {
				nb, err := b.CreateBucket([]byte(name))
				if err != nil {
					return err
				}
				nb.Put([]byte("v"), []byte{0, 0, 0, v})
			}
			return nil
		})
		neighbour := func(calls *[]uint32, nums ...uint32) []migration.Version {
			var out []migration.Version
			for _, n := range nums {
				n := n
				out = append(out, migration.Version{Number: n, Migration: func(b walletdb.ReadWriteBucket) error {
					*calls = append(*calls, n)
					return b.Put([]byte{'d', byte(n)}, []byte{1})
				}})
			}
			return out
		}
		before := dumpDB(db, bk)
		var err error
		func() {
			defer func() {
				if p := recover(); p != nil {
					err = fmt.Errorf("panic: %v", p)
				}
			}()
			err = upgradeIn(db, bk, func(b walletdb.ReadWriteBucket) error {
				var mgrs []migration.Manager
				if withPre {
					mgrs = append(mgrs, &recMgr{name: "pre", ns: b.NestedReadWriteBucket([]byte("pre")), versions: neighbour(&preCalls, 1, 2, 3), fresh: fresh, setCalls: &preSet})
				}
				mgrs = append(mgrs, &recMgr{name: "t", ns: b, versions: vs, fresh: fresh, setCalls: &setCalls})
				if withPost {
					mgrs = append(mgrs, &recMgr{name: "post", ns: b.NestedReadWriteBucket([]byte("post")), versions: neighbour(&postCalls, 1, 2), fresh: fresh, setCalls: &postSet})
				}
				return migration.Upgrade(mgrs...)
			})
		}()
		after := dumpDB(db, bk)
		if panics {
			r.Hit("panicking-migrations", 1)
		}
		desc := fmt.Sprintf("declared=%v nil=%v stored=%d latest=%d failAt=%d panics=%v freshTablePerCall=%v upToDateServiceBefore=%v pendingServiceAfter=%v", nums, keys(nilNums), stored, latest, failAt, panics, fresh, withPre, withPost)
		detail := map[string]any{"case": desc, "invoked": fmt.Sprint(calls), "set_version_calls": fmt.Sprint(setCalls), "error": fmt.Sprint(err)}
		r.Hit("upgrade-runs", 1)
		// oracle
		var wantCalls []uint32
		wantErr := false
		switch {
		case stored > latest:
			wantErr = true
		default:
			for _, n := range runnable {
				wantCalls = append(wantCalls, n)
				if n == failAt {
					wantErr = true
					break
				}
			}
		}
		if fmt.Sprint(calls) != fmt.Sprint(wantCalls) {
			key := "c19:wrong-migrations-invoked"
			if len(calls) == len(wantCalls) {
				key = "c19:wrong-order"
			}
			r.Violation(key, fmt.Sprintf("%s: migrations invoked %v, must be %v (each pending one once, ascending)", desc, calls, wantCalls), "tables", cs, detail)
			return
		}
		if len(preCalls) != 0 || len(preSet) != 0 {
			r.Violation("c19:up-to-date-service-migrated", fmt.Sprintf("%s: the up-to-date service listed first had migrations %v invoked, SetVersion %v", desc, preCalls, preSet), "tables", cs, detail)
			return
		}
		if withPost {
			r.Hit("upgrade-calls-with-several-services", 1)
			want := "[2]"
			if wantErr || stored > latest {
				want = "[]"
			}
			if fmt.Sprint(postCalls) != want || fmt.Sprint(postSet) != want {
				r.Violation("c19:later-service-not-upgraded", fmt.Sprintf("%s: the service listed after it (stored 1, latest 2) had migrations %v invoked and SetVersion %v, want %s", desc, postCalls, postSet, want), "tables", cs, detail)
				return
			}
		} else if withPre {
			r.Hit("upgrade-calls-with-several-services", 1)
		}
		if (err != nil) != wantErr {
			r.Violation("c19:wrong-result", fmt.Sprintf("%s: Upgrade returned %v", desc, err), "tables", cs, detail)
			return
		}
		if stored > latest && !errors.Is(err, migration.ErrReversion) {
			r.Violation("c19:newer-database-not-refused", fmt.Sprintf("%s: Upgrade returned %v, want ErrReversion", desc, err), "tables", cs, detail)
			return
		}
		if wantErr {
			if after != before {
				key := "c19:data-changed-by-failed-upgrade"
				if stored > latest {
					key = "c19:newer-database-modified"
				}
				r.Violation(key, fmt.Sprintf("%s: namespace changed although the upgrade failed inside one transaction", desc), "tables", cs, detail)
				return
			}
			r.Hit("failed-upgrades-left-no-trace", 1)
		} else {
			// stored version afterwards = latest; set exactly once iff something was pending
			var vnow uint32
			walletdb.View(db, func(tx walletdb.ReadTx) error {
				vnow = binary.BigEndian.Uint32(tx.ReadBucket(bk).Get([]byte("v")))
				return nil
			})
			wantV := latest
			if vnow != wantV {
				r.Violation("c19:wrong-recorded-version", fmt.Sprintf("%s: version recorded %d, want %d", desc, vnow, wantV), "tables", cs, detail)
				return
			}
			if stored < latest && fmt.Sprint(setCalls) != fmt.Sprint([]uint32{latest}) || stored == latest && len(setCalls) != 0 && fmt.Sprint(setCalls) != fmt.Sprint([]uint32{latest}) {
				r.Violation("c19:wrong-recorded-version", fmt.Sprintf("%s: SetVersion calls %v", desc, setCalls), "tables", cs, detail)
				return
			}
			r.Hit("successful-upgrades", 1)
		}
		if failPos >= 0 {
			r.Hit("failure-positions-enumerated", 1)
		}
		if stored > latest {
			r.Hit("newer-database-refused", 1)
		}
		r.Case(desc, len(runnable) > 0)
		if r.WantSample() && len(nums) > 2 && len(nums) < 7 && failPos >= 0 {
			r.Sample(detail)
		}
		walletdb.Update(db, func(tx walletdb.ReadWriteTx) error { return tx.DeleteTopLevelBucket(bk) })
	}
}

func upgradeIn(db walletdb.DB, bk []byte, f func(b walletdb.ReadWriteBucket) error) error {
	return walletdb.Update(db, func(tx walletdb.ReadWriteTx) error {
		return f(tx.ReadWriteBucket(bk))
	})
}

func keys(m map[uint32]bool) []int {
	var r []int
	for k := range m {
		r = append(r, int(k))
	}
	sort.Ints(r)
	return r
}

// realCase: a real wallet database whose wtxmgr/waddrmgr versions are wound
// back is upgraded through wallet.Open with a write fault at every position.
func realCase(r *evid.Run, dir string, idx int, cs int64) {
	rg := rand.New(rand.NewSource(cs))
	params := &chaincfg.RegressionNetParams
	path := filepath.Join(dir, fmt.Sprintf("real-%d-%d.db", os.Getpid(), cs))
	inner, err := walletdb.Create("bdb", path, true, 10*time.Second, false)
	if err != nil {
		r.Inconclusive(err.Error())
		return
	}
	defer func() { inner.Close(); os.Remove(path) }()
	db := vdb.New(inner)
	seed := make([]byte, 32)
	rg.Read(seed)
	root, _ := hdkeychain.NewMaster(seed, params)
	if err := wallet.Create(db, []byte("pub"), []byte("priv"), root, params, time.Unix(1600000000, 0)); err != nil {
		r.Violation("harness:create", err.Error(), "real", cs, nil)
		return
	}
	// some transaction history
	walletdb.Update(db, func(tx walletdb.ReadWriteTx) error {
		ns := tx.ReadWriteBucket([]byte("wtxmgr"))
		s, err := wtxmgr.Open(ns, params)
		if err != nil {
			return err
		}
		for i := 0; i < 3+rg.Intn(4); i++ {
			mtx := wire.NewMsgTx(2)
			mtx.AddTxIn(wire.NewTxIn(&wire.OutPoint{Index: uint32(i)}, nil, nil))
			mtx.AddTxOut(wire.NewTxOut(int64(1000+i), []byte{0x51}))
			rec, _ := wtxmgr.NewTxRecordFromMsgTx(mtx, time.Unix(1600000000, 0))
			if err := s.InsertTx(ns, rec, nil); err != nil {
				return err
			}
			if err := s.AddCredit(ns, rec, nil, 0, false); err != nil {
				return err
			}
		}
		return nil
	})
	// wind the stored versions back: wtxmgr -> 1, waddrmgr -> 7 (or only one of them)
	// the four combinations in turn: only the first service behind / both behind /
	// only the second behind / first behind and the second NEWER than understood
	var windTx, windAddr, addrNewer bool
	switch idx % 4 {
	case 0:
		windTx = true
	case 1:
		windTx, windAddr = true, true
	case 2:
		windAddr = true
	case 3:
		windTx, addrNewer = true, true
	}
	walletdb.Update(db, func(tx walletdb.ReadWriteTx) error {
		if windTx {
			tx.ReadWriteBucket([]byte("wtxmgr")).Put([]byte("vers"), []byte{0, 0, 0, 1})
		}
		if windAddr {
			tx.ReadWriteBucket([]byte("waddrmgr")).NestedReadWriteBucket([]byte("main")).Put([]byte("mgrver"), []byte{7, 0, 0, 0})
		}
		if addrNewer {
			tx.ReadWriteBucket([]byte("waddrmgr")).NestedReadWriteBucket([]byte("main")).Put([]byte("mgrver"), []byte{byte(int(waddrmgr.LatestMgrVersion) + 1 + rg.Intn(3)), 0, 0, 0})
		}
		return nil
	})
	tops := [][]byte{[]byte("wtxmgr"), []byte("waddrmgr")}
	before := dumpDB(db, tops...)
	if addrNewer {
		// a newer-than-understood service: refused, and NOTHING is modified, not
		// even the other service's pending upgrade
		_, err := wallet.OpenWithRetry(db, []byte("pub"), nil, params, 0, 10*time.Millisecond)
		if err == nil {
			r.Violation("c19:newer-database-not-refused", "wallet.Open accepted a database whose address manager version is above the latest it understands", "real", cs, nil)
			return
		}
		if after := dumpDB(db, tops...); after != before {
			r.Violation("c19:newer-database-modified", fmt.Sprintf("wallet.Open refused the newer database (%v) but modified it (the transaction store's pending upgrade was applied and kept)", err), "real", cs, nil)
			return
		}
		r.Hit("real-newer-database-refused-unmodified", 1)
		r.Case(fmt.Sprintf("real/newer/%d", cs), true)
		return
	}
	for k := 1; k < 2000; k++ {
		db.FailAt = k
		w, err := wallet.OpenWithRetry(db, []byte("pub"), nil, params, 0, 10*time.Millisecond)
		fired := db.Fired
		lf := db.LastFailed
		db.FailAt = 0
		if !fired {
			if err != nil {
				r.Violation("c19:real-upgrade-failed", fmt.Sprintf("fault-free upgrade through wallet.Open failed: %v", err), "real", cs, nil)
				return
			}
			// latest versions recorded, store usable
			var tv, av uint32
			walletdb.View(db, func(tx walletdb.ReadTx) error {
				tv = binary.BigEndian.Uint32(tx.ReadBucket([]byte("wtxmgr")).Get([]byte("vers")))
				av = binary.LittleEndian.Uint32(tx.ReadBucket([]byte("waddrmgr")).NestedReadBucket([]byte("main")).Get([]byte("mgrver")))
				return nil
			})
			if tv != 2 || av != uint32(waddrmgr.LatestMgrVersion) {
				r.Violation("c19:wrong-recorded-version", fmt.Sprintf("after upgrade wtxmgr version %d, waddrmgr version %d", tv, av), "real", cs, nil)
				return
			}
			bal, err := w.CalculateBalance(0)
			if err != nil || windTx && bal != 0 {
				r.Violation("c19:store-unusable-after-upgrade", fmt.Sprintf("balance %v err %v (history must have been dropped by migration 2)", bal, err), "real", cs, nil)
				return
			}
			if !windTx {
				r.Hit("real-upgrades-with-first-service-up-to-date", 1)
			}
			r.Hit("real-upgrades-completed", 1)
			r.Hit("real-upgrade-fault-positions", k-1)
			r.Case(fmt.Sprintf("real/%v/%v/%d", windTx, windAddr, k), k > 1)
			return
		}
		if err == nil {
			r.Violation("c19:swallowed-write-error", fmt.Sprintf("wallet.Open succeeded although write #%d of the upgrade transaction failed (%s %q)", k, lf.Op, lf.Path), "real", cs, nil)
			return
		}
		if after := dumpDB(db, tops...); after != before {
			r.Violation("c19:data-changed-by-failed-upgrade", fmt.Sprintf("after the upgrade failed at write #%d (%s %q) the database differs from before", k, lf.Op, lf.Path), "real", cs, nil)
			return
		}
	}
}

// countMgr wraps a REAL migration manager (wtxmgr / waddrmgr) and records which
// of its migrations migration.Upgrade invokes; optionally makes one fail after
// it ran.
type countMgr struct {
	migration.Manager
	calls  *[]uint32
	failAt uint32
}

func (c countMgr) Versions() []migration.Version {
	vs := c.Manager.Versions()
	out := make([]migration.Version, len(vs))
	copy(out, vs)
	for i := range out {
		f, n := out[i].Migration, out[i].Number
		if f == nil {
			continue
		}
		out[i].Migration = func(b walletdb.ReadWriteBucket) error {
			*c.calls = append(*c.calls, n)
			if err := f(b); err != nil {
				return err
			}
			if n == c.failAt {
				return errors.New("injected failure after the migration ran")
			}
			return nil
		}
	}
	return out
}

// realCounted: the real managers' own version tables, driven repeatedly inside
// one process: a failed attempt, the retry, an already up-to-date store.  Each
// pending migration of the real table must be invoked exactly once per attempt,
// in ascending order, whatever earlier Upgrade calls did in this process.
func realCounted(r *evid.Run, dir string, cs int64) {
	rg := rand.New(rand.NewSource(cs))
	params := &chaincfg.RegressionNetParams
	path := filepath.Join(dir, fmt.Sprintf("cnt-%d-%d.db", os.Getpid(), cs))
	db, err := walletdb.Create("bdb", path, true, 10*time.Second, false)
	if err != nil {
		r.Inconclusive(err.Error())
		return
	}
	defer func() { db.Close(); os.Remove(path) }()
	seed := make([]byte, 32)
	rg.Read(seed)
	root, _ := hdkeychain.NewMaster(seed, params)
	if err := wallet.Create(db, []byte("pub"), []byte("priv"), root, params, time.Unix(1600000000, 0)); err != nil {
		r.Violation("harness:create", err.Error(), "counted", cs, nil)
		return
	}
	type svc struct {
		name    string
		top     []byte
		mk      func(walletdb.ReadWriteBucket) migration.Manager
		wind    func(walletdb.ReadWriteBucket)
		pending []uint32
	}
	svcs := []svc{
		{"wtxmgr", []byte("wtxmgr"), func(b walletdb.ReadWriteBucket) migration.Manager { return wtxmgr.NewMigrationManager(b) },
			func(b walletdb.ReadWriteBucket) { b.Put([]byte("vers"), []byte{0, 0, 0, 1}) }, []uint32{2}},
		{"waddrmgr", []byte("waddrmgr"), func(b walletdb.ReadWriteBucket) migration.Manager { return waddrmgr.NewMigrationManager(b) },
			func(b walletdb.ReadWriteBucket) {
				b.NestedReadWriteBucket([]byte("main")).Put([]byte("mgrver"), []byte{7, 0, 0, 0})
			}, nil},
	}
	for v := uint32(8); v <= uint32(waddrmgr.LatestMgrVersion); v++ {
		svcs[1].pending = append(svcs[1].pending, v)
	}
	for _, sv := range svcs {
		walletdb.Update(db, func(tx walletdb.ReadWriteTx) error { sv.wind(tx.ReadWriteBucket(sv.top)); return nil })
		attempt := func(failAt uint32) ([]uint32, error) {
			var calls []uint32
			err := walletdb.Update(db, func(tx walletdb.ReadWriteTx) error {
				return migration.Upgrade(countMgr{Manager: sv.mk(tx.ReadWriteBucket(sv.top)), calls: &calls, failAt: failAt})
			})
			return calls, err
		}
		// 1. an attempt whose last pending migration fails after running: rolled back
		last := sv.pending[len(sv.pending)-1]
		calls, err := attempt(last)
		if err == nil || fmt.Sprint(calls) != fmt.Sprint(sv.pending) {
			r.Violation("c19:real-table:wrong-migrations-invoked", fmt.Sprintf("%s wound back: the failing attempt invoked %v (err %v), pending are %v", sv.name, calls, err, sv.pending), "counted", cs, nil)
			return
		}
		// 2. the retry: every pending migration exactly once, in order
		calls, err = attempt(0)
		if err != nil || fmt.Sprint(calls) != fmt.Sprint(sv.pending) {
			r.Violation("c19:real-table:wrong-migrations-invoked", fmt.Sprintf("%s: the retry after a failed upgrade invoked migrations %v (err %v); each of %v must run exactly once, in order", sv.name, calls, err, sv.pending), "counted", cs, nil)
			return
		}
		// 3. up to date now: nothing runs
		calls, err = attempt(0)
		if err != nil || len(calls) != 0 {
			r.Violation("c19:real-table:up-to-date-service-migrated", fmt.Sprintf("%s is up to date but Upgrade invoked %v (err %v)", sv.name, calls, err), "counted", cs, nil)
			return
		}
		r.Hit("real-table-upgrade-attempts-counted", 3)
	}
	r.Case(fmt.Sprint("counted", cs), true)
}

// directOpenNewer: the services' own Open functions (used by callers that do not
// go through wallet.Open) must refuse a namespace recorded at a version above
// the latest they understand, and leave it untouched.
func directOpenNewer(r *evid.Run, dir string, cs int64) {
	rg := rand.New(rand.NewSource(cs))
	params := &chaincfg.RegressionNetParams
	path := filepath.Join(dir, fmt.Sprintf("newer-%d-%d.db", os.Getpid(), cs))
	db, err := walletdb.Create("bdb", path, true, 10*time.Second, false)
	if err != nil {
		r.Inconclusive(err.Error())
		return
	}
	defer func() { db.Close(); os.Remove(path) }()
	seed := make([]byte, 32)
	rg.Read(seed)
	root, _ := hdkeychain.NewMaster(seed, params)
	if err := wallet.Create(db, []byte("pub"), []byte("priv"), root, params, time.Unix(1600000000, 0)); err != nil {
		r.Violation("harness:create", err.Error(), "newer", cs, nil)
		return
	}
	// 1..4 versions ahead, or far ahead: numbers whose low byte / low half look like
	// a version the software knows
	ahead := func(latest uint32) uint32 {
		switch rg.Intn(5) {
		case 0:
			return 1<<16 + uint32(rg.Intn(int(latest)+1))
		case 1:
			return []uint32{1 << 8, 1<<8 + latest, 1 << 16, 1<<16 + latest, 1<<24 + 5, 1<<31 + 1, 0xffffffff}[rg.Intn(7)]
		}
		return latest + 1 + uint32(rg.Intn(4))
	}
	txVer, mgrVer := ahead(2), ahead(uint32(waddrmgr.LatestMgrVersion))
	walletdb.Update(db, func(tx walletdb.ReadWriteTx) error {
		var be, le [4]byte
		binary.BigEndian.PutUint32(be[:], txVer)
		binary.LittleEndian.PutUint32(le[:], mgrVer)
		tx.ReadWriteBucket([]byte("wtxmgr")).Put([]byte("vers"), be[:])
		tx.ReadWriteBucket([]byte("waddrmgr")).NestedReadWriteBucket([]byte("main")).Put([]byte("mgrver"), le[:])
		return nil
	})
	tops := [][]byte{[]byte("wtxmgr"), []byte("waddrmgr")}
	before := dumpDB(db, tops...)
	var txErr, addrErr error
	walletdb.Update(db, func(tx walletdb.ReadWriteTx) error {
		_, txErr = wtxmgr.Open(tx.ReadWriteBucket([]byte("wtxmgr")), params)
		var m *waddrmgr.Manager
		m, addrErr = waddrmgr.Open(tx.ReadWriteBucket([]byte("waddrmgr")), []byte("pub"), params)
		if m != nil {
			m.Close()
		}
		return nil
	})
	if txErr == nil {
		r.Violation("c19:newer-database-not-refused:wtxmgr.Open", fmt.Sprintf("wtxmgr.Open accepted a store recorded at version %d (latest understood: 2)", txVer), "newer", cs, nil)
		return
	}
	if addrErr == nil {
		r.Violation("c19:newer-database-not-refused:waddrmgr.Open", fmt.Sprintf("waddrmgr.Open accepted a manager recorded at version %d (latest understood: %d)", mgrVer, waddrmgr.LatestMgrVersion), "newer", cs, nil)
		return
	}
	if after := dumpDB(db, tops...); after != before {
		r.Violation("c19:newer-database-modified", "the services' Open functions refused the newer namespaces but modified them", "newer", cs, nil)
		return
	}
	// the services' own migration managers, driven as wallet.Open drives them: the
	// upgrade of either must be refused as a reversion and change nothing
	for _, svc := range []string{"wtxmgr", "waddrmgr"} {
		var upErr error
		walletdb.Update(db, func(tx walletdb.ReadWriteTx) error {
			if svc == "wtxmgr" {
				upErr = migration.Upgrade(wtxmgr.NewMigrationManager(tx.ReadWriteBucket([]byte("wtxmgr"))))
			} else {
				upErr = migration.Upgrade(waddrmgr.NewMigrationManager(tx.ReadWriteBucket([]byte("waddrmgr"))))
			}
			return nil // whatever it wrote is committed and shows in the dump
		})
		if !errors.Is(upErr, migration.ErrReversion) {
			r.Violation("c19:newer-database-not-refused:"+svc+"-upgrade", fmt.Sprintf("upgrading the %s namespace recorded at version %d (wtxmgr) / %d (waddrmgr) returned %v, want ErrReversion", svc, txVer, mgrVer, upErr), "newer", cs, nil)
			return
		}
		if after := dumpDB(db, tops...); after != before {
			r.Violation("c19:newer-database-modified", fmt.Sprintf("the refused upgrade of the newer %s namespace (version %d / %d) modified it", svc, txVer, mgrVer), "newer", cs, nil)
			return
		}
	}
	r.Hit("direct-opens-of-newer-namespaces-refused", 2)
	r.Hit("direct-upgrades-of-newer-namespaces-refused", 2)
	r.Case(fmt.Sprint("newer", cs, txVer, mgrVer), true)
}

func main() {
	// fast scrypt for wallet.Create
	waddrmgr.SetSecretKeyGen(func(p *[]byte, _ *waddrmgr.ScryptOptions) (*snacl.SecretKey, error) {
		return snacl.NewSecretKey(p, 16, 8, 1)
	})
	r := evid.New(P, "fault_enumeration")
	r.Rule("(a) version tables of 1..12 distinct numbers from 1..16 in random DECLARED order, some with nil migrations, table handed out as the same slice or as a fresh copy per call; stored version below / at / above the latest; for each table a failure is injected at EVERY position of the list of migrations that must run (plus the no-failure run); a recording migration.Manager over a real bdb namespace, driven inside one walletdb.Update as the wallet does; in a third of the tables each an up-to-date service is listed before it and/or a service with one pending migration after it in the SAME Upgrade call (the up-to-date one must stay untouched, the later one must be upgraded iff the table under test did not fail). Oracle: invoked numbers = sorted pending non-nil ones up to the failing one, each once; error iff failure or stored > latest (ErrReversion); on error the namespace dump equals the one before; on success the recorded version is the latest and SetVersion was called exactly once. (b) a real wallet database whose wtxmgr version is wound back to 1 (and waddrmgr to 7) is opened through wallet.OpenWithRetry with the k-th database write failing, for every k: each failed attempt must return an error and leave both namespaces byte-identical; the fault-free attempt must end at the latest versions with a usable store. (c) the real managers' own tables (wtxmgr, waddrmgr) are driven through migration.Upgrade with an invocation-counting wrapper, repeatedly in one process: a failing attempt, the retry, an up-to-date store; each pending migration must be invoked exactly once per attempt, ascending. (d) wtxmgr.Open and waddrmgr.Open called directly on namespaces recorded 1..4 versions above the latest understood must refuse them and leave them untouched. Non-trivial = table with at least one migration to run; distinct = distinct (table, stored, failure position).")
	r.Trusted("walletdb/bdb transaction rollback (C11)")
	dir := r.TempDir("c19")
	defer os.RemoveAll(dir)
	r.Parallel("tables", r.N(8, 1200), evid.Workers(), func(i int, cs int64) {
		rg := rand.New(rand.NewSource(cs))
		path := filepath.Join(dir, fmt.Sprintf("m-%d-%d.db", os.Getpid(), cs))
		db, err := walletdb.Create("bdb", path, true, 10*time.Second, false)
		if err != nil {
			r.Inconclusive(err.Error())
			return
		}
		defer func() { db.Close(); os.Remove(path) }()
		for t := 0; t < 60; t++ {
			tableCase(r, db, rg, t, cs)
		}
	})
	r.Parallel("real", r.N(4, 160), evid.Workers(), func(i int, cs int64) { realCase(r, dir, i, cs) })
	r.Require("real-newer-database-refused-unmodified", 1)
	r.Parallel("newer", r.N(24, 200), evid.Workers(), func(i int, cs int64) { directOpenNewer(r, dir, cs) })
	r.Require("direct-opens-of-newer-namespaces-refused", 4)
	r.Parallel("counted", r.N(4, 80), evid.Workers(), func(i int, cs int64) { realCounted(r, dir, cs) })
	r.Require("real-table-upgrade-attempts-counted", 12)
	r.Require("upgrade-runs", 1000)
	r.Require("failure-positions-enumerated", 300)
	r.Require("newer-database-refused", 30)
	r.Require("real-upgrades-completed", 3)
	r.Require("real-upgrade-fault-positions", 20)
	os.Exit(r.Finish())
}
