// C14 — unconfirmed transactions are returned parents-first, each exactly once.
package main

import (
	"errors"
	"fmt"
	"math/rand"
	"os"
	"strings"

	"github.com/btcsuite/btcd/btcutil"
	"github.com/btcsuite/btcd/chaincfg/chainhash"
	"github.com/btcsuite/btcd/txscript"
	"github.com/btcsuite/btcd/wire"
	"github.com/btcsuite/btcwallet/chain"
	"github.com/btcsuite/btcwallet/waddrmgr"
	"github.com/btcsuite/btcwallet/wallet"
	"github.com/btcsuite/btcwallet/walletdb"
	"github.com/btcsuite/btcwallet/wtxmgr"

	"verif/internal/evid"
	"verif/internal/ledger"
	"verif/internal/wh"
)

const P = "C14"

type dag struct {
	txs   []*wire.MsgTx
	shape string
	edges int
}

// genDAG builds a random spend graph. Every tx spends only earlier txs of the
// list (acyclic by construction) and/or outpoints outside the set.
func genDAG(r *rand.Rand, n int, shape int) dag {
	var txs []*wire.MsgTx
	edges := 0
	names := []string{"random", "chain", "star-out", "star-in", "diamonds", "independent", "multi-edge", "components", "conflict-siblings"}
	mk := func(i int, parents []wire.OutPoint) *wire.MsgTx {
		tx := wire.NewMsgTx(2)
		for _, p := range parents {
			p := p
			tx.AddTxIn(wire.NewTxIn(&p, nil, nil))
		}
		if len(parents) == 0 || r.Intn(4) == 0 {
			tx.AddTxIn(wire.NewTxIn(&wire.OutPoint{Hash: chainhash.Hash{0xaa, byte(i), byte(i >> 8), byte(r.Intn(256))}, Index: uint32(r.Intn(3))}, nil, nil))
		}
		for o := 0; o < 4; o++ {
			tx.AddTxOut(wire.NewTxOut(int64(1000+i), []byte{0x51, byte(i), byte(o)}))
		}
		return tx
	}
	out := func(j int, idx int) wire.OutPoint {
		return wire.OutPoint{Hash: txs[j].TxHash(), Index: uint32(idx)}
	}
	for i := 0; i < n; i++ {
		var ps []wire.OutPoint
		switch shape {
		case 0: // random
			if i > 0 {
				for k := 0; k < r.Intn(4); k++ {
					ps = append(ps, out(r.Intn(i), r.Intn(4)))
				}
			}
		case 1: // chain
			if i > 0 {
				ps = append(ps, out(i-1, 0))
			}
		case 2: // star-out: everything spends tx 0
			if i > 0 {
				ps = append(ps, out(0, i%4))
			}
		case 3: // star-in: last tx spends all others
			if i == n-1 && n > 1 {
				for j := 0; j < i; j++ {
					ps = append(ps, out(j, 0))
				}
			}
		case 4: // diamonds
			switch i % 4 {
			case 1, 2:
				ps = append(ps, out(i-i%4, i%4))
			case 3:
				ps = append(ps, out(i-1, 0), out(i-2, 0))
			case 0:
				if i > 0 && r.Intn(2) == 0 {
					ps = append(ps, out(i-1, 1))
				}
			}
		case 5: // all independent (shortcut branch)
		case 6: // multi-edge: child spends k outputs of ONE parent
			if i > 0 {
				p := r.Intn(i)
				k := 2 + r.Intn(3)
				for o := 0; o < k; o++ {
					ps = append(ps, out(p, o))
				}
				if r.Intn(3) == 0 && i > 1 {
					ps = append(ps, out(r.Intn(i), 3))
				}
			}
		case 7: // several components of chains
			if i%5 != 0 {
				ps = append(ps, out(i-1, 0))
			}
		case 8: // conflicting siblings: several txs spend the same outpoint of a parent
			if i > 0 {
				ps = append(ps, out((i-1)/3, 0))
			}
		}
		// dedupe identical outpoints within one tx
		seen := map[wire.OutPoint]bool{}
		var uniq []wire.OutPoint
		for _, p := range ps {
			if !seen[p] {
				seen[p] = true
				uniq = append(uniq, p)
			}
		}
		edges += len(uniq)
		txs = append(txs, mk(i, uniq))
	}
	return dag{txs: txs, shape: names[shape], edges: edges}
}

// checkOrder is the oracle: same multiset, each once, every in-set parent
// strictly before its child.
func checkOrder(set map[chainhash.Hash]*wire.MsgTx, got []*wire.MsgTx) (string, string) {
	pos := map[chainhash.Hash]int{}
	for i, t := range got {
		if t == nil {
			return "nil-entry", fmt.Sprintf("entry %d is nil", i)
		}
		h := t.TxHash()
		if _, ok := set[h]; !ok {
			return "foreign-entry", fmt.Sprintf("entry %d (%s) is not in the input set", i, h.String()[:8])
		}
		if _, dup := pos[h]; dup {
			return "duplicate", fmt.Sprintf("tx %s returned twice", h.String()[:8])
		}
		pos[h] = i
	}
	if len(got) != len(set) {
		return "missing", fmt.Sprintf("%d of %d transactions returned", len(got), len(set))
	}
	for h, t := range set {
		for _, in := range t.TxIn {
			if pi, ok := pos[in.PreviousOutPoint.Hash]; ok && pi >= pos[h] {
				return "child-before-parent", fmt.Sprintf("tx %s at position %d spends %s at position %d", h.String()[:8], pos[h], in.PreviousOutPoint.Hash.String()[:8], pi)
			}
		}
	}
	return "", ""
}

// offered: the list actually OFFERED for rebroadcast by a complete wallet
// (wallet.resendUnminedTxs through the verif hook): a funded wallet publishes
// independent sends and chains (children spending unconfirmed change); then a
// rebroadcast pass runs against a backend that accepts everything or rejects
// one transaction.  Every unconfirmed transaction that does not descend from a
// rejected one must be offered exactly once, after its unconfirmed parents.
func offered(r *evid.Run, dir string, cs int64) {
	rg := rand.New(rand.NewSource(cs))
	f, err := wh.NewFunded(rg, dir, false, 5)
	if err != nil {
		if errors.Is(err, wh.ErrNotSynced) {
			r.Inconclusive("sync watchdog")
			return
		}
		r.Violation("c14:harness-setup", err.Error(), "offered", cs, nil)
		return
	}
	defer f.Close()
	f.MinePending()
	ch := f.Chain
	var log []string
	fail := func(key, what string) {
		r.Violation(key, what, "offered", cs, map[string]any{"steps": log, "what": what})
	}
	dest, _ := btcutil.NewAddressWitnessPubKeyHash(make([]byte, 20), f.Params)
	dpk, _ := txscript.PayToAddrScript(dest)
	for pass := 0; pass < 3; pass++ {
		// publish 2..6 transactions: fresh sends (independent components) and
		// children of unconfirmed change (chains)
		for i := 0; i < 2+rg.Intn(5); i++ {
			outs := []*wire.TxOut{wire.NewTxOut(int64(12000+rg.Intn(30000)), dpk)}
			var tx *wire.MsgTx
			var err error
			var changeOps []*wh.Coin
			byParent := map[chainhash.Hash][]*wh.Coin{}
			for _, c := range f.SortedCoins() {
				if c.Change && c.Height == -1 && c.SpentBy == "" && c.Out.Value > 40000 {
					changeOps = append(changeOps, c)
				}
				if c.Change && c.Height == -1 && c.SpentBy == "" && c.Scope == waddrmgr.KeyScopeBIP0086 && c.Acct == 0 {
					byParent[c.Op.Hash] = append(byParent[c.Op.Hash], c)
				}
			}
			var pair []*wh.Coin
			for _, p := range f.Pending {
				if cs := byParent[p.TxHash()]; len(cs) >= 2 && cs[0].Out.Value+cs[1].Out.Value > 30000 {
					pair = cs[:2]
				}
			}
			switch {
			case pair != nil && rg.Intn(2) == 0:
				// a child spending TWO outputs of the same unconfirmed parent (two
				// edges between one pair of transactions)
				sc := waddrmgr.KeyScopeBIP0086
				outs[0].Value = (pair[0].Out.Value + pair[1].Out.Value) / 3
				tx, err = f.W.SendOutputsWithInput(outs, &sc, 0, 0, 2000, wallet.CoinSelectionLargest, "", []wire.OutPoint{pair[0].Op, pair[1].Op})
				if err == nil {
					r.Hit("wallet-children-spending-two-outputs-of-one-parent", 1)
				}
			case len(changeOps) > 0 && rg.Intn(2) == 0:
				c := changeOps[rg.Intn(len(changeOps))]
				sc := c.Scope
				outs[0].Value = c.Out.Value / 3
				tx, err = f.W.SendOutputsWithInput(outs, &sc, c.Acct, 0, 2000, wallet.CoinSelectionLargest, "", []wire.OutPoint{c.Op})
			case rg.Intn(3) == 0:
				// pay one of the wallet's own addresses: the transaction then has two
				// wallet outputs (payment and change)
				if own, e := f.W.NewAddress(0, waddrmgr.KeyScopeBIP0086); e == nil {
					opk, _ := txscript.PayToAddrScript(own)
					outs[0] = wire.NewTxOut(int64(30000+rg.Intn(30000)), opk)
				}
				tx, err = f.W.SendOutputs(outs, nil, 0, 1, 2000, wallet.CoinSelectionLargest, "")
			default:
				tx, err = f.W.SendOutputs(outs, nil, 0, 1, 2000, wallet.CoinSelectionLargest, "")
			}
			if err != nil {
				log = append(log, fmt.Sprintf("send failed: %v", err))
				continue
			}
			f.ApplyPublished(tx)
			log = append(log, fmt.Sprintf("published %s", tx.TxHash().String()[:8]))
		}
		ch.Barrier()
		var txs []*wire.MsgTx
		walletdb.View(f.DB, func(tx walletdb.ReadTx) error {
			txs, _ = f.W.TxStore.UnminedTxs(tx.ReadBucket(wh.TxNS))
			return nil
		})
		if len(txs) == 0 {
			continue
		}
		// what must be offered is what the harness ledger knows to be published
		// and still unconfirmed -- not merely what the wallet still remembers
		want := map[chainhash.Hash]bool{}
		for _, t := range f.Pending {
			want[t.TxHash()] = true
		}
		have := map[chainhash.Hash]bool{}
		for _, t := range txs {
			have[t.TxHash()] = true
		}
		for h := range want {
			if !have[h] {
				fail("c14:unconfirmed-tx-missing-from-the-list", fmt.Sprintf("pass %d: transaction %v was published, accepted and is still unconfirmed, but is not in the wallet's list of unconfirmed transactions (%d listed, %d expected)", pass, h, len(have), len(want)))
				return
			}
		}
		policy := rg.Intn(3) // 0 accept all, 1 reject the first offered, 2 reject a random one
		rejectAt := 1
		if policy == 2 {
			rejectAt = 1 + rg.Intn(len(txs))
		}
		sent0 := len(ch.SentTxs())
		n := 0
		rejected := map[chainhash.Hash]bool{}
		ch.SendHook = func(tx *wire.MsgTx) error {
			n++
			if policy != 0 && n == rejectAt {
				rejected[tx.TxHash()] = true
				go ch.Evict(tx.TxHash())
				return errors.New("backend: rejected on re-offer")
			}
			for _, in := range tx.TxIn {
				if rejected[in.PreviousOutPoint.Hash] {
					rejected[tx.TxHash()] = true
					go ch.Evict(tx.TxHash())
					return chain.ErrMissingInputsOrSpent
				}
			}
			return nil
		}
		f.W.VerifResendUnminedTxs()
		ch.SendHook = nil
		ch.Barrier()
		off := ch.SentTxs()[sent0:]
		pos := map[chainhash.Hash]int{}
		for i, t := range off {
			h := t.TxHash()
			if _, dup := pos[h]; dup {
				fail("c14:offered-twice", fmt.Sprintf("transaction %v was offered twice in one rebroadcast pass", h))
				return
			}
			pos[h] = i
		}
		desc := map[chainhash.Hash]bool{}
		for h := range rejected {
			desc[h] = true
		}
		for changed := true; changed; {
			changed = false
			for _, t := range txs {
				if desc[t.TxHash()] {
					continue
				}
				for _, in := range t.TxIn {
					if desc[in.PreviousOutPoint.Hash] {
						desc[t.TxHash()] = true
						changed = true
					}
				}
			}
		}
		for h := range want {
			if _, ok := pos[h]; !ok && !desc[h] {
				fail("c14:unconfirmed-tx-not-offered", fmt.Sprintf("the rebroadcast pass offered %d of %d unconfirmed transactions; %v, which does not descend from a rejected one, was not offered (policy %d, %d rejected)", len(off), len(want), h, policy, len(rejected)))
				return
			}
		}
		for _, t := range off {
			for _, in := range t.TxIn {
				if pi, ok := pos[in.PreviousOutPoint.Hash]; ok && pi >= pos[t.TxHash()] {
					fail("c14:offered-child-before-parent", fmt.Sprintf("transaction %v was offered before its unconfirmed parent %v", t.TxHash(), in.PreviousOutPoint.Hash))
					return
				}
			}
		}
		edges := 0
		for _, t := range txs {
			for _, in := range t.TxIn {
				if want[in.PreviousOutPoint.Hash] {
					edges++
				}
			}
		}
		for _, p := range append([]*wire.MsgTx{}, f.Pending...) {
			if desc[p.TxHash()] {
				ch.Evict(p.TxHash())
				f.Forget(p)
			}
		}
		log = append(log, fmt.Sprintf("rebroadcast pass (policy %d): %d unconfirmed, %d offered, %d rejected incl. descendants, %d dependency edges", policy, len(want), len(off), len(desc), edges))
		r.Hit("wallet-rebroadcast-passes", 1)
		r.Hit("wallet-offered-transactions", len(off))
		r.Hit("wallet-offered-dependency-edges", edges)
		if len(rejected) > 0 {
			r.Hit("wallet-rebroadcast-passes-with-rejection", 1)
		}
	}
	r.Case(fmt.Sprint("offered", cs, log), true)
}

func main() {
	r := evid.New(P, "exploration")
	r.Rule("(a) random spend DAGs of 1..120 transactions in 9 shapes (random, chain, star-out, star-in, diamonds, all-independent, k parallel edges between one pair, several components, conflicting siblings, plus subsets with missing parents); each graph is sorted 20..200 times so Go's randomized map iteration supplies the 'any iteration order' quantifier, and the number of distinct output orders per graph is recorded; oracle: same set, each once, every in-set parent before its child. (b) Store.UnminedTxs after every event of C01-style histories, same oracle against the ledger model's unmined set. (c) complete funded wallets publish independent sends and chains through unconfirmed change, then run the rebroadcast (verif hook) against a backend that accepts all or rejects one transaction: the list the backend received must contain every unconfirmed transaction not descending from a rejected one exactly once, parents first. Non-trivial = graph with at least one in-set edge; distinct = distinct (shape, n, edge-count, seed) graphs.")
	r.Trusted("btcd wire/chainhash")
	graphs := r.N(400, 20000)
	r.Parallel("dag", graphs, evid.Workers(), func(i int, cs int64) {
		rg := rand.New(rand.NewSource(cs))
		n := 1 + rg.Intn(40)
		if rg.Intn(5) == 0 {
			n = 60 + rg.Intn(61)
		}
		shape := rg.Intn(9)
		if i >= 0 && i < 9 {
			shape = i
		}
		d := genDAG(rg, n, shape)
		set := map[chainhash.Hash]*wire.MsgTx{}
		for _, t := range d.txs {
			// sometimes drop a tx so that children reference a parent outside the set
			if rg.Intn(15) == 0 && n > 3 {
				continue
			}
			set[t.TxHash()] = t
		}
		reps := 20
		if !r.Quick() {
			reps = 20 + rg.Intn(181)
		}
		orders := map[string]bool{}
		for k := 0; k < reps; k++ {
			// a fresh map each time: new iteration order
			m := make(map[chainhash.Hash]*wire.MsgTx, len(set))
			for h, t := range set {
				m[h] = t
			}
			got := wtxmgr.DependencySort(m)
			if key, what := checkOrder(set, got); key != "" {
				var ev []string
				for _, t := range d.txs {
					var ins []string
					for _, in := range t.TxIn {
						ins = append(ins, fmt.Sprintf("%s:%d", in.PreviousOutPoint.Hash.String()[:8], in.PreviousOutPoint.Index))
					}
					h := t.TxHash()
					_, inset := set[h]
					ev = append(ev, fmt.Sprintf("%s inset=%v ins=[%s]", h.String()[:8], inset, strings.Join(ins, ",")))
				}
				r.Violation("sort:"+key, fmt.Sprintf("DependencySort on a %s graph of %d txs (%d edges): %s", d.shape, len(set), d.edges, what), "dag", cs, map[string]any{"shape": d.shape, "graph": ev, "what": what})
				break
			}
			var sb strings.Builder
			for _, t := range got {
				h := t.TxHash()
				sb.Write(h[:3])
			}
			orders[sb.String()] = true
		}
		r.Hit("sorts", reps)
		r.Hit("graphs:"+d.shape, 1)
		r.Hit("distinct-output-orders", len(orders))
		r.Hit("edges", d.edges)
		r.Case(fmt.Sprintf("%s/%d/%d/%d", d.shape, n, d.edges, cs), d.edges > 0)
		if r.WantSample() && n < 8 && d.edges > 2 {
			var ev []string
			for _, t := range d.txs {
				var ins []string
				for _, in := range t.TxIn {
					ins = append(ins, in.PreviousOutPoint.Hash.String()[:8])
				}
				h := t.TxHash()
				ev = append(ev, h.String()[:8]+" <- "+strings.Join(ins, ","))
			}
			r.Sample(map[string]any{"shape": d.shape, "graph": ev, "sorted_times": reps, "distinct_orders_seen": len(orders)})
		}
	})
	// through the store
	dir := r.TempDir("c14")
	defer os.RemoveAll(dir)
	cfg := ledger.Config{MinSteps: 20, MaxSteps: r.N(60, 150), Order: true}
	r.Parallel("history", r.N(300, 3000), evid.Workers(), func(i int, cs int64) {
		res := ledger.RunHistory(cfg, cs, dir)
		ledger.Record(r, res, "history", cs, res.Stats["unmined-dependency-edges-checked"] > 0)
	})
	r.Parallel("offered", r.N(12, 240), evid.Workers(), func(i int, cs int64) { offered(r, dir, cs) })
	r.Require("wallet-rebroadcast-passes", 10)
	r.Require("wallet-children-spending-two-outputs-of-one-parent", 3)
	r.Require("wallet-rebroadcast-passes-with-rejection", 3)
	r.Require("sorts", 5000)
	r.Require("graphs:multi-edge", 10)
	r.Require("graphs:independent", 10)
	r.Require("unmined-dependency-edges-checked", 1000)
	os.Exit(r.Finish())
}
