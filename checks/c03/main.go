// C03 — every issued address is the seed's BIP32 child and the wallet can sign for it.
package main

import (
	"math/rand"
	"os"

	"verif/internal/evid"
	"verif/internal/mgr"
	"verif/internal/oracle"
)

const P = "C03"

// searchSeed finds a seed for which the purpose' or coin' key of one of the
// default scopes has a leading zero byte (HMAC-only search with the oracle).
func searchSeed(rg *rand.Rand, wantCoin bool) []byte {
	purposes := []uint32{44, 49, 84, 86}
	for n := 0; n < 200000; n++ {
		s := make([]byte, 32)
		rg.Read(s)
		for _, p := range purposes {
			pk, ck, err := oracle.CoinKey(s, p, 0)
			if err != nil {
				continue
			}
			if (wantCoin && ck.LeadingZero()) || (!wantCoin && pk.LeadingZero()) {
				return s
			}
		}
	}
	return nil
}

func main() {
	r := evid.New(P, "exploration")
	r.Rule("random seeds plus seeds SEARCHED so that the purpose' or coin' key of a default scope has a leading zero byte (the only case where btcsuite's legacy rule differs from BIP32); per seed a random interleaving of next-address, extend-to-index, lookup, derive-by-path, mark-used, lock/unlock (right and wrong passphrase), passphrase change, new account, custom scope, xpub-account import (with and without schema override), key/script import, cache invalidation and restart on a real waddrmgr.Manager; every address obtained by any route is judged against an independent BIP32 oracle (own HMAC-SHA512/secp256k1 CKDpriv/CKDpub, legacy rule for in-memory parents) and address encoders: address string, public key, derivation path, account, internal flag, type; when unlocked also the private key (equality + one sign/verify) and imported keys/scripts byte-for-byte; account public keys and issued-index counters after every account-level change; full sweeps (lookup + derive-by-path of every issued address, last addresses) after unlock, restart and at the end (unlocked, then again after restart). Non-trivial = history that issued addresses on >= 2 branches and was swept at least once; distinct = distinct (seed, op-kind sequence).")
	r.Trusted("btcec secp256k1 arithmetic", "btcutil address constructors, txscript.ComputeTaprootKeyNoScript", "crypto/hmac, crypto/sha512")
	r.Assume("invalid BIP32 children (p ~ 2^-127) are not produced", "for accounts >= 1 of a scope whose coin-type key has a leading zero byte either derivation rule is admitted, resolved once per account (DESIGN O-9); account 0 must follow the legacy rule")
	dir := r.TempDir("c03")
	defer os.RemoveAll(dir)
	n := r.N(60, 1500)
	nz := r.N(8, 120)
	cfg := mgr.Config{Weights: mgr.DefaultWeights, MinSteps: 20, MaxSteps: r.N(70, 120), C03: true, SweepEvery: 25}
	r.Parallel("history", n, evid.Workers(), func(i int, cs int64) {
		res := mgr.RunHistory(cfg, cs, dir)
		mgr.Record(r, res, "history", cs, res.Stats["c03-full-sweeps"] > 0 && res.Stats["op:next"] > 1)
	})
	r.Parallel("leading-zero-seed", nz, evid.Workers(), func(i int, cs int64) {
		rg := rand.New(rand.NewSource(cs))
		c := cfg
		c.Seed = searchSeed(rg, cs%3 != 0)
		if c.Seed == nil {
			r.Inconclusive("seed search failed")
			return
		}
		c.Weights.NewAccount *= 4
		r.Hit("leading-zero-seeds", 1)
		res := mgr.RunHistory(c, cs, dir)
		mgr.Record(r, res, "leading-zero-seed", cs, true)
	})
	r.Require("c03-address-checks", 2000)
	r.Require("c03-privkey-checks", 500)
	r.Require("c03-full-sweeps", 50)
	r.Require("leading-zero-seeds", 5)
	r.Require("op:importxpub", 10)
	os.Exit(r.Finish())
}
