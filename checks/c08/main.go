// C08 — what the wallet says in memory is what a restart would say.
package main

import (
	"os"

	"verif/internal/evid"
	"verif/internal/mgr"
)

const P = "C08"

func main() {
	r := evid.New(P, "exploration")
	r.Rule("random histories of committed operations (next, extend, new / rename / xpub account, custom scope, imports, mark-used, set-synced-to (connecting and NON-connecting blocks, the latter must be refused), passphrase change, lock/unlock, cache invalidation) mixed with ROLLED-BACK transactions of three kinds around address-issuing calls (callback returns an error after issuing = dry-run shape; injected write fault; injected commit failure). After EVERY operation the database file is copied, a fresh manager is opened on the copy (unlocked iff the running one is) and both answer the same query battery: every issued address (found, account, internal, imported, compressed, type, public key, derivation info, used flag, address->account), every account (properties incl. key counts and account public key, name, last external/internal address), LastAccount, ForEachAccount, LookupAccount of every name ever used, active addresses, SyncedTo, BlockHash over the stored window, watch-only flag. After a rolled-back transaction the battery must be unchanged and the restart comparison must still hold; the next committed issuing request is judged against the independent derivation oracle for the committed index. A wallet-level phase runs NewAddress / NewChangeAddress / RenameAccount / NextAccount / ImportAccount / restart mixed with the wallet's own dry-run paths (CreateSimpleTx dry run, ImportAccountDryRun with few addresses, ImportAccountDryRun that FAILS after writing the account because more addresses than an account may hold are requested) and compares, after every operation, the running wallet's manager with a manager opened on a copy of the database over every account number 0..last+1 of every default scope. Non-trivial = history with at least one rolled-back transaction; distinct = distinct op-kind sequences.")
	r.Trusted("walletdb.DB.Copy (bbolt tx.WriteTo) yields a consistent image")
	r.Assume("rolled-back transactions contain issuing calls only (DESIGN O-7)", "lookups of addresses that only a rolled-back transaction produced are not compared (O-4)", "Birthday() is not in the battery (O-5)")
	dir := r.TempDir("c08")
	defer os.RemoveAll(dir)
	wt := mgr.DefaultWeights
	wt.Next, wt.Rename, wt.MarkUsed, wt.SyncedTo, wt.Invalidate, wt.SyncedToGap = 24, 5, 7, 6, 6, 3
	cfg := mgr.Config{Weights: wt, MinSteps: 15, MaxSteps: r.N(50, 80), C08: true, Rollbacks: true}
	r.Parallel("history", r.N(60, 1500), evid.Workers(), func(i int, cs int64) {
		res := mgr.RunHistory(cfg, cs, dir)
		rb := res.Stats["c08-rolled-back-txs:kind0"] + res.Stats["c08-rolled-back-txs:kind1"] + res.Stats["c08-rolled-back-txs:kind2"]
		mgr.Record(r, res, "history", cs, rb > 0)
	})
	r.Parallel("wallet", r.N(10, 240), evid.Workers(), func(i int, cs int64) { walletHistory(r, dir, cs) })
	r.Require("wallet-restart-comparisons", 150)
	r.Require("wallet-dry-runs:import-account-failing", 5)
	r.Require("wallet-dry-runs:create-tx", 5)
	r.Require("wallet-dry-runs:create-tx-without-change", 2)
	r.Require("c08-restart-comparisons", 1000)
	r.Require("c08-rolled-back-txs:kind0", 20)
	r.Require("c08-rolled-back-txs:kind1", 10)
	r.Require("c08-rolled-back-txs:kind2", 20)
	r.Require("op:rename", 20)
	os.Exit(r.Finish())
}
