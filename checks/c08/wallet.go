package main

import (
	"errors"
	"fmt"
	"math/rand"
	"os"
	"path/filepath"
	"sort"
	"strings"
	"time"

	"github.com/btcsuite/btcd/btcutil"
	"github.com/btcsuite/btcd/btcutil/hdkeychain"
	"github.com/btcsuite/btcd/txscript"
	"github.com/btcsuite/btcd/wire"
	"github.com/btcsuite/btcwallet/waddrmgr"
	"github.com/btcsuite/btcwallet/wallet"
	"github.com/btcsuite/btcwallet/walletdb"

	"verif/internal/evid"
	"verif/internal/oracle"
	"verif/internal/wh"
)

// walletSurface asks a manager about every account of every default scope
// (numbers 0 .. last+1, so that an account that exists in memory only shows up).
func walletSurface(db walletdb.DB, m *waddrmgr.Manager, names []string) map[string]string {
	out := map[string]string{}
	walletdb.View(db, func(tx walletdb.ReadTx) error {
		ns := tx.ReadBucket(wh.AddrNS)
		for _, sc := range waddrmgr.DefaultKeyScopes {
			sm, err := m.FetchScopedKeyManager(sc)
			if err != nil {
				out[fmt.Sprint("scope:", sc)] = "ERR " + err.Error()
				continue
			}
			last, err := sm.LastAccount(ns)
			out[fmt.Sprint("last:", sc)] = fmt.Sprint(last, err)
			for a := uint32(0); a <= last+1; a++ {
				key := fmt.Sprintf("acct:%v/%d", sc, a)
				p, err := sm.AccountProperties(ns, a)
				if err != nil {
					out[key] = "ERR " + errClass(err)
					continue
				}
				pub := "-"
				if p.AccountPubKey != nil {
					pub = p.AccountPubKey.String()
				}
				out[key] = fmt.Sprintf("name=%q ext=%d int=%d imp=%d pub=%s watchonly=%v", p.AccountName, p.ExternalKeyCount, p.InternalKeyCount, p.ImportedKeyCount, pub, p.IsWatchOnly)
				for br, f := range []func(walletdb.ReadBucket, uint32) (waddrmgr.ManagedAddress, error){sm.LastExternalAddress, sm.LastInternalAddress} {
					la, err := f(ns, a)
					if err == nil {
						out[fmt.Sprintf("%s:last%d", key, br)] = la.Address().String()
					} else {
						out[fmt.Sprintf("%s:last%d", key, br)] = "ERR " + errClass(err)
					}
				}
			}
			for _, n := range names {
				a, err := sm.LookupAccount(ns, n)
				if err != nil {
					out[fmt.Sprintf("lookup:%v/%s", sc, n)] = "ERR " + errClass(err)
				} else {
					out[fmt.Sprintf("lookup:%v/%s", sc, n)] = fmt.Sprint(a)
				}
			}
		}
		return nil
	})
	return out
}

func errClass(err error) string {
	var me waddrmgr.ManagerError
	if errors.As(err, &me) {
		return me.ErrorCode.String()
	}
	return err.Error()
}

// walletHistory: wallet-level operations, among them the wallet's own dry-run
// paths (CreateSimpleTx dry run, ImportAccountDryRun succeeding and failing),
// each followed by the comparison of the running wallet's manager with a
// manager freshly opened on a copy of the database.
func walletHistory(r *evid.Run, dir string, cs int64) {
	rg := rand.New(rand.NewSource(cs))
	f, err := wh.NewFunded(rg, dir, true, 4)
	if err != nil {
		if errors.Is(err, wh.ErrNotSynced) {
			r.Inconclusive("sync watchdog")
			return
		}
		r.Violation("c08:harness-setup", err.Error(), "wallet", cs, nil)
		return
	}
	defer f.Close()
	f.MinePending()
	var log []string
	names := []string{"default", "second"}
	fail := func(key, what string) {
		r.Violation(key, what, "wallet", cs, map[string]any{"operations": log, "what": what})
	}
	dest, _ := btcutil.NewAddressWitnessPubKeyHash(make([]byte, 20), f.Params)
	dpk, _ := txscript.PayToAddrScript(dest)
	type acct struct {
		sc  waddrmgr.KeyScope
		num uint32
	}
	accts := []acct{{waddrmgr.KeyScopeBIP0084, 0}, {waddrmgr.KeyScopeBIP0084, f.Acct1}, {waddrmgr.KeyScopeBIP0086, 0}, {waddrmgr.KeyScopeBIP0049Plus, 0}}
	newXPub := func() *hdkeychain.ExtendedKey {
		sd := make([]byte, 32)
		rg.Read(sd)
		leg, _, _, err := oracle.AccountKey(sd, 84, 0, uint32(rg.Intn(3)))
		if err != nil {
			return nil
		}
		pub := leg.Neuter()
		return hdkeychain.NewExtendedKey(f.Params.HDPublicKeyID[:], pub.Pub[:], pub.Chain[:], []byte{1, 2, 3, 4}, 3, oracle.H, false)
	}
	at := waddrmgr.WitnessPubKey
	forceImport := false
	nsteps := 25 + rg.Intn(15)
	for step := 0; step < nsteps; step++ {
		k := rg.Intn(10)
		if forceImport {
			k, forceImport = 5, false
		}
		var what string
		var dryBefore map[string]string
		switch k {
		case 0, 1, 2:
			a := accts[rg.Intn(len(accts))]
			var err error
			if rg.Intn(2) == 0 {
				_, err = f.W.NewAddress(a.num, a.sc)
				what = fmt.Sprintf("NewAddress(%v/%d) -> %v", a.sc, a.num, err)
			} else {
				_, err = f.W.NewChangeAddress(a.num, a.sc)
				what = fmt.Sprintf("NewChangeAddress(%v/%d) -> %v", a.sc, a.num, err)
			}
		case 3:
			sc := waddrmgr.KeyScopeBIP0084
			amt := int64(9000 + rg.Intn(9000))
			noChange := false
			if rg.Intn(3) != 0 {
				// nearly the whole largest coin: what is left after the fee is dust, so the
				// authored transaction has no change output (the change address was still
				// asked for while authoring)
				var best int64
				for _, c := range f.SortedCoins() {
					if f.Ineligible(c, &sc, 0, 1) == "" && c.Out.Value > best {
						best = c.Out.Value
					}
				}
				if best > 5000 {
					// left over: enough for the fee of the one-input transaction WITH a
					// change output (141 vB at 2 sat/vB = 282), not enough for that change
					// to be above the dust threshold (294): 300..499
					amt, noChange = best-300-int64(rg.Intn(200)), true
				}
			}
			dryBefore = walletSurface(f.DB, f.W.Manager, names)
			atx, err := f.W.CreateSimpleTx(&sc, 0, []*wire.TxOut{wire.NewTxOut(amt, dpk)}, 1, 2000, wallet.CoinSelectionLargest, true)
			what = fmt.Sprintf("CreateSimpleTx(dry run, amount %d) -> %v", amt, err)
			r.Hit("wallet-dry-runs:create-tx", 1)
			if err == nil && noChange && atx.ChangeIndex < 0 {
				r.Hit("wallet-dry-runs:create-tx-without-change", 1)
			}
		case 4:
			a := accts[rg.Intn(len(accts))]
			n := fmt.Sprintf("name-%d", rg.Intn(1e6))
			err := f.W.RenameAccount(a.sc, a.num, n)
			if err == nil {
				names = append(names, n)
			}
			what = fmt.Sprintf("RenameAccount(%v/%d, %q) -> %v", a.sc, a.num, n, err)
		case 5:
			n := fmt.Sprintf("imported-%d", rg.Intn(1e6))
			hd := newXPub()
			if hd == nil {
				continue
			}
			p, err := f.W.ImportAccount(n, hd, rg.Uint32(), &at)
			if err == nil {
				names = append(names, n)
				accts = append(accts, acct{waddrmgr.KeyScopeBIP0084, p.AccountNumber})
				if p.AccountName != n || p.AccountPubKey == nil || p.AccountPubKey.String() != hd.String() {
					log = append(log, fmt.Sprintf("ImportAccount(%q)", n))
					fail("c08:wallet:import-returned-other-account", fmt.Sprintf("ImportAccount(%q, %s...) returned the properties of %q / %v", n, hd.String()[:20], p.AccountName, p.AccountPubKey))
					return
				}
			}
			what = fmt.Sprintf("ImportAccount(%q) -> %v", n, err)
		case 6:
			n := fmt.Sprintf("probe-%d", rg.Intn(1e6))
			hd := newXPub()
			if hd == nil {
				continue
			}
			_, _, _, err := f.W.ImportAccountDryRun(n, hd, rg.Uint32(), &at, uint32(1+rg.Intn(4)))
			names = append(names, n)
			what = fmt.Sprintf("ImportAccountDryRun(%q, few addresses) -> %v", n, err)
			r.Hit("wallet-dry-runs:import-account", 1)
		case 7:
			// a dry run that fails after the account was written: more addresses than an account may hold
			n := fmt.Sprintf("probe-%d", rg.Intn(1e6))
			hd := newXPub()
			if hd == nil {
				continue
			}
			_, _, _, err := f.W.ImportAccountDryRun(n, hd, rg.Uint32(), &at, waddrmgr.MaxAddressesPerAccount+1)
			names = append(names, n)
			what = fmt.Sprintf("ImportAccountDryRun(%q, too many addresses) -> %v", n, err)
			if err == nil {
				log = append(log, what)
				fail("c08:wallet:dry-run-too-many-addresses-accepted", what)
				return
			}
			r.Hit("wallet-dry-runs:import-account-failing", 1)
			forceImport = rg.Intn(2) == 0
		case 8:
			n := fmt.Sprintf("acct-%d", rg.Intn(1e6))
			sc := []waddrmgr.KeyScope{waddrmgr.KeyScopeBIP0084, waddrmgr.KeyScopeBIP0086}[rg.Intn(2)]
			num, err := f.W.NextAccount(sc, n)
			if err == nil {
				names = append(names, n)
				accts = append(accts, acct{sc, num})
			}
			what = fmt.Sprintf("NextAccount(%v, %q) -> %v", sc, n, err)
		case 9:
			f.Stop()
			if err := f.Open(f.Window, true); err != nil {
				if errors.Is(err, wh.ErrNotSynced) {
					r.Inconclusive("resync watchdog")
					return
				}
				fail("c08:wallet:reopen", err.Error())
				return
			}
			what = "restart"
		}
		log = append(log, what)
		// running manager vs a manager freshly opened on a copy of the file
		cp := filepath.Join(dir, fmt.Sprintf("wcopy-%d-%d.db", cs, step))
		fh, _ := os.Create(cp)
		if err := f.DB.Copy(fh); err != nil {
			fh.Close()
			os.Remove(cp)
			r.Inconclusive("copy: " + err.Error())
			return
		}
		fh.Close()
		db2, err := walletdb.Open("bdb", cp, true, 10*time.Second, false)
		if err != nil {
			os.Remove(cp)
			r.Inconclusive("open copy: " + err.Error())
			return
		}
		var m2 *waddrmgr.Manager
		err = walletdb.View(db2, func(tx walletdb.ReadTx) error {
			var e error
			m2, e = waddrmgr.Open(tx.ReadBucket(wh.AddrNS), f.PubPass, f.Params)
			if e != nil {
				return e
			}
			// same lock state as the running manager (some answers depend on it)
			if !f.W.Manager.IsLocked() {
				return m2.Unlock(tx.ReadBucket(wh.AddrNS), append([]byte(nil), f.PrivPass...))
			}
			return nil
		})
		if err != nil {
			db2.Close()
			os.Remove(cp)
			fail("c08:wallet:reopen-copy", err.Error())
			return
		}
		run := walletSurface(f.DB, f.W.Manager, names)
		fresh := walletSurface(db2, m2, names)
		m2.Close()
		db2.Close()
		os.Remove(cp)
		var ks []string
		for k := range run {
			ks = append(ks, k)
		}
		for k := range fresh {
			if _, ok := run[k]; !ok {
				ks = append(ks, k)
			}
		}
		sort.Strings(ks)
		var diffs []string
		for _, k := range ks {
			if run[k] != fresh[k] {
				diffs = append(diffs, fmt.Sprintf("%s: running %q, reopened %q", k, run[k], fresh[k]))
			}
		}
		r.Hit("wallet-restart-comparisons", 1)
		// a dry run is a rolled-back transaction: nothing the manager answers may have moved
		if dryBefore != nil {
			var moved []string
			for k, v := range dryBefore {
				if run[k] != v {
					moved = append(moved, fmt.Sprintf("%s: before %q, after %q", k, v, run[k]))
				}
			}
			sort.Strings(moved)
			if len(moved) > 0 {
				if len(moved) > 6 {
					moved = moved[:6]
				}
				fail("c08:wallet:dry-run-changed-the-manager", fmt.Sprintf("%s changed what the running manager answers:\n%s", what, strings.Join(moved, "\n")))
				return
			}
		}
		if len(diffs) > 0 {
			if len(diffs) > 6 {
				diffs = diffs[:6]
			}
			kind := ks[0]
			for _, k := range ks {
				if run[k] != fresh[k] {
					kind = k[:strings.Index(k, ":")]
					break
				}
			}
			fail("c08:wallet:running-vs-reopened:"+kind, fmt.Sprintf("after %s the running wallet's manager and a manager opened on the same database disagree:\n%s", what, strings.Join(diffs, "\n")))
			return
		}
	}
	r.Case(fmt.Sprint("wallet", cs, len(log)), true)
}
