// C09 — concurrent requests never receive the same address.
//
// Monitor: every issuing call on a real wallet is recorded at the client
// boundary {client, op, call stamp, returned address -> (branch,index) via
// the derivation oracle, return stamp}; porcupine checks the history of every
// (scope, account, branch) against a sequential next-index counter; then
// distinctness, key counts (memory) and a restarted twin (database) are
// compared. The database wrapper delays every commit callback by 0..2 ms:
// exactly the window (after bbolt released its writer lock, before the
// in-memory index update) the wallet-level mutex exists to close. Built with
// -race; race reports whose two stacks both come from issuing calls are
// violations.
package main

import (
	"errors"
	"fmt"
	"math/rand"
	"os"
	"path/filepath"
	"sort"
	"strings"
	"sync"
	"sync/atomic"
	"time"

	"github.com/anishathalye/porcupine"
	"github.com/btcsuite/btcd/btcutil"
	"github.com/btcsuite/btcd/btcutil/hdkeychain"
	"github.com/btcsuite/btcd/btcutil/psbt"
	"github.com/btcsuite/btcd/txscript"
	"github.com/btcsuite/btcd/wire"
	"github.com/btcsuite/btcwallet/waddrmgr"
	"github.com/btcsuite/btcwallet/wallet"
	"github.com/btcsuite/btcwallet/walletdb"

	"verif/internal/evid"
	"verif/internal/oracle"
	"verif/internal/wh"
)

const P = "C09"

type branchKey struct {
	scope  waddrmgr.KeyScope
	branch uint32
	acct   uint32
}

type opIn struct {
	Kind string // "new" | "current"
	Key  string
	Desc string
}

var kinds = map[waddrmgr.KeyScope][2]oracle.AddrKind{
	waddrmgr.KeyScopeBIP0084: {oracle.P2WPKH, oracle.P2WPKH},
	waddrmgr.KeyScopeBIP0086: {oracle.P2TR, oracle.P2TR},
}

func model(init map[string]int) porcupine.Model {
	return porcupine.Model{
		Partition: func(history []porcupine.Operation) [][]porcupine.Operation {
			m := map[string][]porcupine.Operation{}
			var ks []string
			for _, o := range history {
				k := o.Input.(opIn).Key
				if _, ok := m[k]; !ok {
					ks = append(ks, k)
				}
				m[k] = append(m[k], o)
			}
			sort.Strings(ks)
			var r [][]porcupine.Operation
			for _, k := range ks {
				r = append(r, m[k])
			}
			return r
		},
		Init: func() interface{} { return -1 }, // resolved per partition at the first step
		Step: func(state, input, output interface{}) (bool, interface{}) {
			in := input.(opIn)
			st := state.(int)
			if st == -1 {
				st = init[in.Key]
			}
			out := output.(int)
			switch in.Kind {
			case "new":
				return out == st, st + 1
			case "current":
				// every index below the initial counter was paid during funding
				// (used); indices issued during the run are unused. CurrentAddress
				// returns the last address if it is unused, else issues the next.
				if st > init[in.Key] {
					return out == st-1, st
				}
				return out == st, st + 1
			}
			return false, st
		},
		DescribeOperation: func(input, output interface{}) string {
			return fmt.Sprintf("%s -> index %d", input.(opIn).Desc, output.(int))
		},
	}
}

func runWallet(r *evid.Run, dir string, cs int64) {
	rg := rand.New(rand.NewSource(cs))
	f, err := wh.NewFunded(rg, dir, true, 4)
	if err != nil {
		if errors.Is(err, wh.ErrNotSynced) {
			r.Inconclusive("sync watchdog")
			return
		}
		r.Violation("c09:harness-setup", err.Error(), "wallet", cs, nil)
		return
	}
	defer f.Close()
	f.MinePending()
	// oracle: address -> (scope, branch, index) for account 0 of two scopes
	scopes := []waddrmgr.KeyScope{waddrmgr.KeyScopeBIP0084, waddrmgr.KeyScopeBIP0086}
	index := map[string]struct {
		k   branchKey
		idx int
	}{}
	for _, s := range scopes {
		leg, _, _, err := oracle.AccountKey(f.Seed, s.Purpose, s.Coin, 0)
		if err != nil {
			return
		}
		for br := uint32(0); br < 2; br++ {
			bk, _ := leg.Child(br, false)
			for i := uint32(0); i < 700; i++ {
				ck, err := bk.Child(i, false)
				if err != nil {
					continue
				}
				a, _ := oracle.Address(ck.Pub, kinds[s][br], f.Params)
				index[a.EncodeAddress()] = struct {
					k   branchKey
					idx int
				}{branchKey{s, br, 0}, int(i)}
			}
		}
	}
	keyOf := func(k branchKey) string { return fmt.Sprintf("%v/%d/%d", k.scope, k.acct, k.branch) }
	// An imported extended-public-key account (BIP84) joins the default accounts.
	// Before the concurrent round it issues DIFFERENT numbers of receiving and
	// change addresses, and the wallet is restarted, so that the round starts from
	// counters loaded from the database.
	impScope := waddrmgr.KeyScopeBIP0084
	impAcct := uint32(0)
	haveImp := false
	preIssued := map[string]bool{}
	{
		sd := make([]byte, 32)
		rg.Read(sd)
		leg, _, _, err := oracle.AccountKey(sd, impScope.Purpose, impScope.Coin, 0)
		if err == nil {
			pub := leg.Neuter()
			hd := hdkeychain.NewExtendedKey(f.Params.HDPublicKeyID[:], pub.Pub[:], pub.Chain[:], []byte{1, 2, 3, 4}, 3, oracle.H, false)
			at := waddrmgr.WitnessPubKey
			props, err := f.W.ImportAccount(fmt.Sprintf("imported-%d", rg.Intn(1e6)), hd, rg.Uint32(), &at)
			if err != nil {
				r.Violation("c09:harness-setup", "ImportAccount: "+err.Error(), "wallet", cs, nil)
				return
			}
			impAcct, haveImp = props.AccountNumber, true
			for br := uint32(0); br < 2; br++ {
				bk, _ := leg.Child(br, false)
				for i := uint32(0); i < 400; i++ {
					ck, err := bk.Child(i, false)
					if err != nil {
						continue
					}
					a, _ := oracle.Address(ck.Pub, oracle.P2WPKH, f.Params)
					index[a.EncodeAddress()] = struct {
						k   branchKey
						idx int
					}{branchKey{impScope, br, impAcct}, int(i)}
				}
			}
			na, nb := rg.Intn(6), rg.Intn(6)
			for i := 0; i < na; i++ {
				if a, err := f.W.NewAddress(impAcct, impScope); err == nil {
					preIssued[a.EncodeAddress()] = true
				}
			}
			for i := 0; i < nb; i++ {
				if a, err := f.W.NewChangeAddress(impAcct, impScope); err == nil {
					preIssued[a.EncodeAddress()] = true
				}
			}
		}
	}
	// restart: the concurrent round runs on counters read back from the database
	if rg.Intn(3) != 0 {
		f.Stop()
		if err := f.Open(f.Window, true); err != nil {
			if errors.Is(err, wh.ErrNotSynced) {
				r.Inconclusive("resync watchdog")
				return
			}
			r.Violation("c09:harness-setup", "reopen: "+err.Error(), "wallet", cs, nil)
			return
		}
		r.Hit("wallets-restarted-before-the-round", 1)
	}
	// initial next indices
	init := map[string]int{}
	for _, s := range scopes {
		p, err := f.W.AccountProperties(s, 0)
		if err != nil {
			r.Violation("c09:harness-setup", err.Error(), "wallet", cs, nil)
			return
		}
		init[keyOf(branchKey{s, 0, 0})] = int(p.ExternalKeyCount)
		init[keyOf(branchKey{s, 1, 0})] = int(p.InternalKeyCount)
	}
	if haveImp {
		// what was issued before the restart defines the starting counters: a
		// restarted wallet must continue exactly there
		n := [2]int{}
		for a := range preIssued {
			n[index[a].k.branch]++
		}
		init[keyOf(branchKey{impScope, 0, impAcct})] = n[0]
		init[keyOf(branchKey{impScope, 1, impAcct})] = n[1]
	}
	// widen the commit-callback window
	var dmu sync.Mutex
	drg := rand.New(rand.NewSource(cs + 1))
	maxDelay := []int{0, 300, 2000}[rg.Intn(3)]
	f.DB.PreCommit = func() {
		dmu.Lock()
		d := 0
		if maxDelay > 0 {
			d = drg.Intn(maxDelay)
		}
		dmu.Unlock()
		if d > 0 {
			time.Sleep(time.Duration(d) * time.Microsecond)
		}
	}
	// spendable coins of scope 84 / account 0 for explicit-input PSBTs
	var psbtCoins []*wh.Coin
	for _, c := range f.SortedCoins() {
		if c.Scope == waddrmgr.KeyScopeBIP0084 && c.Acct == 0 && c.SpentBy == "" && c.Height != -1 && !c.Coinbase && c.Out.Value > 60000 {
			psbtCoins = append(psbtCoins, c)
		}
	}
	dest, _ := btcutil.NewAddressWitnessPubKeyHash(make([]byte, 20), f.Params)
	dpk, _ := txscript.PayToAddrScript(dest)
	G := 8 + rg.Intn(25)
	K := 4 + rg.Intn(5)
	if G*K > 180 {
		K = 180 / G
	}
	var clock, renames int64
	var mu sync.Mutex
	var ops []porcupine.Operation
	var events []string
	var wg sync.WaitGroup
	record := func(client int, in opIn, call int64, addr string) {
		ret := atomic.AddInt64(&clock, 1)
		ent, ok := index[addr]
		mu.Lock()
		defer mu.Unlock()
		if !ok {
			events = append(events, fmt.Sprintf("client %d %s -> address %s NOT in the oracle's table", client, in.Desc, addr))
			ops = append(ops, porcupine.Operation{ClientId: client, Input: in, Call: call, Output: -2, Return: ret})
			return
		}
		in.Key = keyOf(ent.k)
		ops = append(ops, porcupine.Operation{ClientId: client, Input: in, Call: call, Output: ent.idx, Return: ret})
		events = append(events, fmt.Sprintf("[%d..%d] client %d %s -> %s index %d", call, ret, client, in.Desc, in.Key, ent.idx))
	}
	changeOf := func(tx *wire.MsgTx, skip []byte) string {
		for _, o := range tx.TxOut {
			if string(o.PkScript) == string(skip) {
				continue
			}
			_, addrs, _, err := txscript.ExtractPkScriptAddrs(o.PkScript, f.Params)
			if err == nil && len(addrs) == 1 {
				return addrs[0].EncodeAddress()
			}
		}
		return ""
	}
	plan := make([][]int, G)
	for g := range plan {
		for k := 0; k < K; k++ {
			plan[g] = append(plan[g], rg.Intn(11))
		}
	}
	for g := 0; g < G; g++ {
		wg.Add(1)
		go func(g int) {
			defer wg.Done()
			lr := rand.New(rand.NewSource(cs + int64(g)*7919))
			for k := 0; k < K; k++ {
				s := scopes[lr.Intn(2)]
				call := atomic.AddInt64(&clock, 1)
				switch plan[g][k] {
				case 0, 1, 2:
					a, err := f.W.NewAddress(0, s)
					if err == nil {
						record(g, opIn{Kind: "new", Desc: fmt.Sprintf("NewAddress(%v)", s)}, call, a.EncodeAddress())
					}
				case 3, 4:
					a, err := f.W.NewChangeAddress(0, s)
					if err == nil {
						record(g, opIn{Kind: "new", Desc: fmt.Sprintf("NewChangeAddress(%v)", s)}, call, a.EncodeAddress())
					}
				case 5:
					a, err := f.W.CurrentAddress(0, s)
					if err == nil {
						record(g, opIn{Kind: "current", Desc: fmt.Sprintf("CurrentAddress(%v)", s)}, call, a.EncodeAddress())
					}
				case 9, 10: // the imported account
					if !haveImp {
						continue
					}
					if plan[g][k] == 9 {
						a, err := f.W.NewAddress(impAcct, impScope)
						if err == nil {
							record(g, opIn{Kind: "new", Desc: "NewAddress(imported account)"}, call, a.EncodeAddress())
						}
					} else {
						a, err := f.W.NewChangeAddress(impAcct, impScope)
						if err == nil {
							record(g, opIn{Kind: "new", Desc: "NewChangeAddress(imported account)"}, call, a.EncodeAddress())
						}
					}
				case 6: // a transaction that needs change
					sc := waddrmgr.KeyScopeBIP0084
					atx, err := f.W.CreateSimpleTx(&sc, 0, []*wire.TxOut{wire.NewTxOut(int64(10000+lr.Intn(5000)), dpk)}, 1, 2000, wallet.CoinSelectionLargest, false)
					if err == nil && atx.ChangeIndex >= 0 {
						if a := changeOf(atx.Tx, dpk); a != "" {
							record(g, opIn{Kind: "new", Desc: "CreateSimpleTx(change)"}, call, a)
						}
					}
				case 7: // dry run: must not consume an index
					sc := waddrmgr.KeyScopeBIP0084
					f.W.CreateSimpleTx(&sc, 0, []*wire.TxOut{wire.NewTxOut(12000, dpk)}, 1, 2000, wallet.CoinSelectionLargest, true)
				case 8: // PSBT funding, with or without caller-supplied inputs
					sc := waddrmgr.KeyScopeBIP0084
					var ins []*wire.OutPoint
					var seqs []uint32
					amt := int64(15000)
					if len(psbtCoins) > 0 && lr.Intn(2) == 0 {
						c := psbtCoins[lr.Intn(len(psbtCoins))]
						op := c.Op
						ins = append(ins, &op)
						seqs = append(seqs, wire.MaxTxInSequenceNum)
						amt = c.Out.Value / 3
					}
					pkt, err := psbt.New(ins, []*wire.TxOut{wire.NewTxOut(amt, dpk)}, 2, 0, seqs)
					if err != nil {
						continue
					}
					ci, err := f.W.FundPsbt(pkt, &sc, 1, 0, 2000, wallet.CoinSelectionLargest)
					if err == nil && ci >= 0 {
						_, addrs, _, e := txscript.ExtractPkScriptAddrs(pkt.UnsignedTx.TxOut[ci].PkScript, f.Params)
						if e == nil && len(addrs) == 1 {
							d := "FundPsbt(no inputs, change)"
							if len(ins) > 0 {
								d = "FundPsbt(explicit inputs, change)"
							}
							record(g, opIn{Kind: "new", Desc: d}, call, addrs[0].EncodeAddress())
						}
					}
				}
			}
		}(g)
	}
	// a non-issuing writer of the SAME account rows runs alongside: account
	// renames rewrite the whole row, counters included, without taking part in
	// the issuance protocol
	var issuersDone int32
	var rwg sync.WaitGroup
	// readers of the same accounts (account listings, properties) run alongside
	// too: they load and cache account state while issuers are between their
	// database transaction and its commit callback
	var reads int64
	for q := 0; q < 4; q++ {
		rwg.Add(1)
		go func(q int) {
			defer rwg.Done()
			for i := 0; i < 200000 && atomic.LoadInt32(&issuersDone) == 0; i++ {
				sc := scopes[(i+q)%2]
				if _, err := f.W.AccountProperties(sc, 0); err == nil {
					atomic.AddInt64(&reads, 1)
				}
				if haveImp && i%3 == 0 {
					f.W.AccountProperties(impScope, impAcct)
				}
				if i%16 == 0 {
					f.W.Accounts(sc)
				}
			}
		}(q)
	}
	rwg.Add(1)
	go func() {
		defer rwg.Done()
		for i := 0; i < 20000 && atomic.LoadInt32(&issuersDone) == 0; i++ {
			sc, acct := waddrmgr.KeyScopeBIP0084, uint32(0)
			if haveImp && i%2 == 1 {
				sc, acct = impScope, impAcct
			}
			if err := f.W.RenameAccount(sc, acct, fmt.Sprintf("renamed-%d-%d", cs&0xffff, i)); err == nil {
				atomic.AddInt64(&renames, 1)
			}
		}
	}()
	// and somebody keeps asking for the key scopes that are in use to be
	// registered (they exist: every request must be refused and change nothing)
	var reregs, reregOK int64
	rwg.Add(1)
	go func() {
		defer rwg.Done()
		for i := 0; i < 20000 && atomic.LoadInt32(&issuersDone) == 0; i++ {
			sc := scopes[i%2]
			if _, err := f.W.AddScopeManager(sc, waddrmgr.ScopeAddrMap[sc]); err == nil {
				atomic.AddInt64(&reregOK, 1)
			}
			atomic.AddInt64(&reregs, 1)
			time.Sleep(200 * time.Microsecond)
		}
	}()
	wg.Wait()
	atomic.StoreInt32(&issuersDone, 1)
	rwg.Wait()
	f.DB.PreCommit = nil
	r.Hit("concurrent-registrations-of-an-existing-scope", int(atomic.LoadInt64(&reregs)))
	r.Hit("concurrent-account-renames", int(atomic.LoadInt64(&renames)))
	r.Hit("concurrent-account-reads", int(atomic.LoadInt64(&reads)))
	reregAccepted := atomic.LoadInt64(&reregOK)
	fail := func(key, what string) {
		ev := events
		if len(ev) > 260 {
			ev = ev[:260]
		}
		r.Violation(key, what, "wallet", cs, map[string]any{"history": ev, "goroutines": G, "calls_each": K, "max_commit_callback_delay_us": maxDelay, "what": what})
	}
	if reregAccepted > 0 {
		fail("c09:existing-scope-registered-again", fmt.Sprintf("%d requests to register a key scope that exists (and is issuing addresses) were accepted", reregAccepted))
		return
	}
	// addresses outside the oracle's table
	for _, o := range ops {
		if o.Output.(int) == -2 {
			fail("c09:unknown-address", "an issuing call returned an address that is not a child of the seed at any index < 700 of the branch")
			return
		}
	}
	// (1) linearizability against the next-index counter
	res, info := porcupine.CheckOperationsVerbose(model(init), ops, 60*time.Second)
	_ = info
	switch res {
	case porcupine.Unknown:
		r.Inconclusive("porcupine timed out")
		return
	case porcupine.Illegal:
		// find a short witness: duplicates or gaps per branch
		what := "the recorded history of issued indices is not linearizable against a gap-free next-index counter"
		byKey := map[string][]int{}
		for _, o := range ops {
			in := o.Input.(opIn)
			if in.Kind == "new" {
				byKey[in.Key] = append(byKey[in.Key], o.Output.(int))
			}
		}
		key := "c09:not-linearizable"
		for k, v := range byKey {
			sort.Ints(v)
			for i := 1; i < len(v); i++ {
				if v[i] == v[i-1] {
					what += fmt.Sprintf("; branch %s: index %d was handed to two successful calls", k, v[i])
					key = "c09:duplicate-address"
				}
			}
		}
		fail(key, what)
		return
	}
	r.Hit("histories-linearizable", 1)
	r.Hit("issuing-calls-recorded", len(ops))
	// (2) distinctness and gap-freeness of the "new" results per branch, (3) memory counts
	byKey := map[string][]int{}
	for _, o := range ops {
		in := o.Input.(opIn)
		if in.Kind == "new" {
			byKey[in.Key] = append(byKey[in.Key], o.Output.(int))
		}
	}
	issuedTotal := map[string]int{}
	for k, v := range byKey {
		sort.Ints(v)
		for i := 1; i < len(v); i++ {
			if v[i] == v[i-1] {
				fail("c09:duplicate-address", fmt.Sprintf("branch %s: index %d issued twice", k, v[i]))
				return
			}
		}
		issuedTotal[k] = len(v)
	}
	// an index handed out only through CurrentAddress (the first call on a branch whose last address is used)
	currentIssued := map[string]int{}
	for _, o := range ops {
		in := o.Input.(opIn)
		if in.Kind == "current" && o.Output.(int) == init[in.Key] {
			currentIssued[in.Key] = 1
		}
	}
	counts := func(w *wallet.Wallet, m *waddrmgr.Manager, db walletdb.DB) (map[string]int, error) {
		out := map[string]int{}
		err := walletdb.View(db, func(tx walletdb.ReadTx) error {
			ns := tx.ReadBucket(wh.AddrNS)
			for _, s := range scopes {
				sm, err := m.FetchScopedKeyManager(s)
				if err != nil {
					return err
				}
				p, err := sm.AccountProperties(ns, 0)
				if err != nil {
					return err
				}
				out[keyOf(branchKey{s, 0, 0})] = int(p.ExternalKeyCount)
				out[keyOf(branchKey{s, 1, 0})] = int(p.InternalKeyCount)
			}
			if haveImp {
				sm, err := m.FetchScopedKeyManager(impScope)
				if err != nil {
					return err
				}
				p, err := sm.AccountProperties(ns, impAcct)
				if err != nil {
					return err
				}
				out[keyOf(branchKey{impScope, 0, impAcct})] = int(p.ExternalKeyCount)
				out[keyOf(branchKey{impScope, 1, impAcct})] = int(p.InternalKeyCount)
			}
			return nil
		})
		return out, err
	}
	mem, err := counts(f.W, f.W.Manager, f.DB)
	if err != nil {
		fail("c09:account-properties", err.Error())
		return
	}
	// the highest issued index bounds the counter from below; every index below the counter that was
	// not returned to a recorded call may belong to a call that failed after issuing (none expected)
	for k, n := range mem {
		want := init[k] + issuedTotal[k]
		if currentIssued[k] == 1 && (len(byKey[k]) == 0 || byKey[k][0] != init[k]) {
			want++
		}
		if n < want {
			fail("c09:counter-behind-issued", fmt.Sprintf("branch %s: the manager reports %d keys but %d distinct indices were handed out (initial %d)", k, n, want, init[k]))
			return
		}
		if len(byKey[k]) > 0 && byKey[k][len(byKey[k])-1] >= n {
			fail("c09:counter-behind-issued", fmt.Sprintf("branch %s: index %d was handed out but the key count is %d", k, byKey[k][len(byKey[k])-1], n))
			return
		}
	}
	// (4) the database agrees with memory: a manager opened on a copy of the file reports the same counts
	cp := filepath.Join(dir, fmt.Sprintf("copy-%d.db", cs))
	fh, _ := os.Create(cp)
	if err := f.DB.Copy(fh); err != nil {
		fh.Close()
		r.Inconclusive("copy: " + err.Error())
		return
	}
	fh.Close()
	defer os.Remove(cp)
	db2, err := walletdb.Open("bdb", cp, true, 10*time.Second, false)
	if err != nil {
		r.Inconclusive("open copy: " + err.Error())
		return
	}
	defer db2.Close()
	var m2 *waddrmgr.Manager
	err = walletdb.View(db2, func(tx walletdb.ReadTx) error {
		var e error
		m2, e = waddrmgr.Open(tx.ReadBucket(wh.AddrNS), f.PubPass, f.Params)
		return e
	})
	if err != nil {
		fail("c09:reopen", err.Error())
		return
	}
	defer m2.Close()
	disk, err := counts(nil, m2, db2)
	if err != nil {
		fail("c09:reopen", err.Error())
		return
	}
	for k := range mem {
		if mem[k] != disk[k] {
			fail("c09:database-disagrees-with-memory", fmt.Sprintf("branch %s: running wallet reports %d keys, a manager opened on the same database reports %d", k, mem[k], disk[k]))
			return
		}
	}
	r.Hit("wallets", 1)
	r.Hit(fmt.Sprintf("delay-%dus", maxDelay), 1)
	r.Distinct("interleavings", fmt.Sprint(events))
	r.Case(fmt.Sprint(cs, G, K, maxDelay), len(ops) > 20)
	if r.WantSample() && len(events) < 60 {
		r.Sample(map[string]any{"case_seed": cs, "goroutines": G, "history": events})
	}
}

var issuing = []string{"(*Wallet).NewAddress", "(*Wallet).NewChangeAddress", "(*Wallet).CurrentAddress", "(*Wallet).CreateSimpleTx", "(*Wallet).txToOutputs", "(*Wallet).FundPsbt", "(*Wallet).txCreator"}

var otherRaces int // reports that are not between two issuing calls (observation only, DESIGN O-8 / O-13)

func raceReports() (int, string) {
	files, _ := filepath.Glob(filepath.Join(evid.Root(), ".work", P, "race*"))
	n := 0
	first := ""
	seen := map[string]bool{}
	for _, f := range files {
		b, err := os.ReadFile(f)
		if err != nil {
			continue
		}
		for _, blk := range strings.Split(string(b), "==================") {
			if !strings.Contains(blk, "WARNING: DATA RACE") {
				continue
			}
			// two access stacks: split at "Previous"
			parts := strings.SplitN(blk, "Previous ", 2)
			if len(parts) != 2 {
				continue
			}
			second := strings.SplitN(parts[1], "Goroutine ", 2)[0]
			ep := func(s string) string {
				for _, e := range issuing {
					if strings.Contains(s, e) {
						return e
					}
				}
				return ""
			}
			a, b2 := ep(parts[0]), ep(second)
			if a == "" || b2 == "" || !strings.Contains(parts[0], "/repo/") || !strings.Contains(second, "/repo/") {
				otherRaces++
				continue // not a race between two issuing calls (DESIGN O-8)
			}
			k := a + "|" + b2
			if !seen[k] {
				seen[k] = true
				n++
				if first == "" {
					first = blk
				}
			}
		}
	}
	return n, first
}

func main() {
	r := evid.New(P, "exploration")
	r.Rule("complete funded wallets (unlocked for the whole run); 8..32 goroutines x 4..8 calls (<= 180 per history) mixing NewAddress, NewChangeAddress, CurrentAddress on two key scopes of the default account and NewAddress / NewChangeAddress on an imported extended-public-key account (which issued 0..5 receiving and 0..5 change addresses beforehand; a further goroutine renames both accounts all along, rewriting their rows, and four more read account properties / listings all along; two of three wallets are stopped and reopened before the round, so that its counters come from the database), CreateSimpleTx that needs change (real and dry run) and FundPsbt with and without caller-supplied inputs, while the database wrapper delays every commit callback by 0 / <=300 us / <=2 ms; each returned address is mapped to (branch, index) by the independent derivation oracle; porcupine checks each branch's history against a sequential next-index counter (CurrentAddress may return the last unused index); afterwards: no index twice, key counts not behind the issued indices, a manager opened on a copy of the database reports the same counts. All under the Go race detector; a report whose two stacks both come from issuing calls is a violation. Non-trivial = history with > 20 recorded issuing calls; distinct = distinct (seed, goroutines, calls, delay); distinct interleavings = distinct recorded histories.")
	r.Trusted("porcupine v1.3.0 linearizability checker", "independent BIP32 oracle for address -> index", "Go race detector")
	r.Assume("schedules are sampled, widened at the commit-callback window only", "calls that return an error are not part of the history (they must not have consumed an index: covered by the gap/linearizability check of later calls)")
	dir := r.TempDir("c09")
	defer os.RemoveAll(dir)
	r.Parallel("wallet", r.N(24, 600), 8, func(i int, cs int64) { runWallet(r, dir, cs) })
	if n, first := raceReports(); n > 0 {
		r.Violation("c09:data-race", fmt.Sprintf("%d distinct data race(s) between address-issuing calls", n), "wallet", 0, map[string]any{"first_report": strings.Split(first, "\n")})
	}
	r.Hit("race-reports-not-between-issuing-calls", otherRaces)
	r.Require("histories-linearizable", 15)
	r.Require("issuing-calls-recorded", 1000)
	os.Exit(r.Finish())
}
