// C05 — locked or wrong passphrase means no private-key access, and memory is wiped.
package main

import (
	"os"

	"github.com/btcsuite/btcwallet/snacl"
	"github.com/btcsuite/btcwallet/waddrmgr"

	"verif/internal/evid"
	"verif/internal/mgr"
)

const P = "C05"

func main() {
	r := evid.New(P, "exploration")
	r.Rule("random histories of unlock (right / wrong: truncated, extended, case-flipped, empty, public passphrase, previous passphrases), lock, passphrase change (public/private x locked/unlocked x right/wrong old), next/extend/lookup/derive-by-path (fills the derived-key cache), new account, xpub-account import, key/script import, cache invalidation and restart on a real waddrmgr.Manager. After every operation in a locked state an ACCESS BATTERY probes PrivKey / ExportPrivKey / Script of managed addresses, both on freshly looked-up objects and on up to 60 objects obtained AND USED while unlocked (Address, ForEachAccountAddress of default and imported accounts) and retained since, (all of them after lock, restart and failed unlock), DeriveFromKeyPathCache and DeriveFromKeyPath(...).PrivKey for every path ever derived, Encrypt/Decrypt(CKTPrivate|CKTScript), NewAccount, NewRawAccount, ImportPrivateKey, ImportScript, ImportWitnessScript(secret), NewScopedKeyManager: each must fail with a locked / watching-only error and return nothing. Every Lock, every Unlock that fails while unlocked, and every conversion of an UNLOCKED manager to watching-only (which must lock it) is bracketed by the verif hook: aliases of all live clear-text buffers (master key, crypto keys, passphrase hash, account private keys, address private keys, P2SH scripts, cached derived keys) are captured before and must be all-zero after, and none may be live afterwards. Passphrase batteries after every private change (new works at once whatever the lock state, old fails and leaves it locked), after public changes (old public passphrase cannot open a copy), and after restarts (previous passphrases fail, current works). Non-trivial = history with at least one wipe check and one locked access battery; distinct = distinct op-kind sequences.")
	r.Trusted("verif hook waddrmgr.VerifSecretBuffers (aliases live buffers under the manager's own locks)")
	r.Assume("clear text of witness/taproot secret scripts is recorded as an observation only (DESIGN O-3); their accessors are probed", "error classes asserted only as locked-or-watching-only")
	dir := r.TempDir("c05")
	defer os.RemoveAll(dir)
	wt := mgr.DefaultWeights
	wt.Lock, wt.Unlock, wt.UnlockWrong, wt.ChangePriv, wt.ChangePub, wt.DerivePath, wt.ImportXPub, wt.Restart = 10, 10, 6, 6, 3, 8, 5, 5
	wt.Convert = 1 // rare and late-ish: what follows runs on a watching-only manager
	cfg := mgr.Config{Weights: wt, MinSteps: 15, MaxSteps: r.N(60, 90), C05: true}
	r.Parallel("history", r.N(80, 2000), evid.Workers(), func(i int, cs int64) {
		res := mgr.RunHistory(cfg, cs, dir)
		mgr.Record(r, res, "history", cs, res.Stats["c05-wipe-checks"] > 0 && res.Stats["c05-locked-probes"] > 0)
	})
	// complete wallets: the wallet-level passphrase operations (fast key derivation)
	waddrmgr.SetSecretKeyGen(func(p *[]byte, _ *waddrmgr.ScryptOptions) (*snacl.SecretKey, error) {
		return snacl.NewSecretKey(p, 16, 8, 1)
	})
	r.Parallel("wallet-passphrases", r.N(16, 300), evid.Workers(), func(i int, cs int64) { walletPassphrases(r, dir, cs) })
	r.Require("wallet-passphrase-probes", 60)
	r.Require("wallet-passphrase-changes-refused", 10)
	r.Require("c05-locked-probes", 5000)
	r.Require("c05-wipe-checks", 100)
	r.Require("c05-locks-before-the-commit-of-an-operation", 10)
	r.Require("c05-nonzero-buffers-seen-wiped", 300)
	r.Require("c05-passphrase-change-batteries", 20)
	r.Require("op:unlock-wrong", 50)
	r.Require("derived-key-cache-fills", 20)
	os.Exit(r.Finish())
}
