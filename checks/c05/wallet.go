package main

import (
	"errors"
	"fmt"
	"math/rand"
	"time"

	"github.com/btcsuite/btcwallet/waddrmgr"

	"verif/internal/evid"
	"verif/internal/fakechain"
	"verif/internal/wh"
)

// walletPassphrases: the wallet-level passphrase operations (ChangePassphrases
// changes both in one database transaction; ChangePrivatePassphrase;
// ChangePublicPassphrase) with right and wrong old passphrases in every
// combination.  After EVERY attempt, accepted or refused, the running wallet is
// probed -- the current private passphrase unlocks it, every other candidate
// (previous ones, the new one of a refused change) is refused and leaves it
// locked, a further change only accepts the current old passphrases -- and every
// few attempts the wallet is stopped and reopened with the current public
// passphrase and probed again.
func walletPassphrases(r *evid.Run, dir string, cs int64) {
	rg := rand.New(rand.NewSource(cs))
	params := wh.Params(5)
	ch := fakechain.New(params)
	for i := 0; i < 3; i++ {
		ch.Extend()
	}
	h, err := wh.New(rg, dir, params, nil, ch, ch.BlockAt(1).Header.Timestamp)
	if err != nil {
		r.Inconclusive("harness: " + err.Error())
		return
	}
	defer h.Close()
	if err := h.Open(0, false); err != nil {
		if errors.Is(err, wh.ErrNotSynced) {
			r.Inconclusive("sync watchdog")
			return
		}
		r.Violation("c05:harness-open", err.Error(), "wallet-passphrases", cs, nil)
		return
	}
	curPub, curPriv := append([]byte(nil), h.PubPass...), append([]byte(nil), h.PrivPass...)
	var stalePriv, stalePub [][]byte // everything that is NOT current
	var log []string
	fail := func(key, what string) {
		r.Violation(key, what, "wallet-passphrases", cs, map[string]any{"attempts": log, "what": what})
	}
	n := 0
	fresh := func(kind string) []byte { n++; return []byte(fmt.Sprintf("%s-%d-%d", kind, n, rg.Intn(1000))) }
	probe := func(when string) bool {
		w := h.W
		// the current private passphrase unlocks
		if err := w.Unlock(append([]byte(nil), curPriv...), nil); err != nil {
			fail("c05:right-passphrase-rejected:wallet", fmt.Sprintf("%s: the current private passphrase %q does not unlock the wallet: %v", when, curPriv, err))
			return false
		}
		w.Lock()
		for _, p := range stalePriv {
			if err := w.Unlock(append([]byte(nil), p...), nil); err == nil {
				w.Lock()
				fail("c05:wrong-passphrase-accepted:wallet", fmt.Sprintf("%s: %q is not the current private passphrase (%q) but unlocks the wallet", when, p, curPriv))
				return false
			}
			if !w.Locked() {
				fail("c05:not-locked-after-wrong-passphrase:wallet", fmt.Sprintf("%s: wallet unlocked after Unlock(%q) was refused", when, p))
				return false
			}
			r.Hit("wallet-stale-private-passphrases-refused", 1)
		}
		// public passphrase: a change request must accept the current one only
		for _, p := range stalePub {
			if err := w.ChangePublicPassphrase(append([]byte(nil), p...), []byte("never")); err == nil {
				fail("c05:wrong-passphrase-accepted:wallet-public", fmt.Sprintf("%s: %q is not the current public passphrase (%q) but was accepted as the old passphrase of a change", when, p, curPub))
				return false
			}
			r.Hit("wallet-stale-public-passphrases-refused", 1)
		}
		np := fresh("pub")
		if err := w.ChangePublicPassphrase(append([]byte(nil), curPub...), append([]byte(nil), np...)); err != nil {
			fail("c05:right-passphrase-rejected:wallet-public", fmt.Sprintf("%s: the current public passphrase %q is refused as the old passphrase of a change: %v", when, curPub, err))
			return false
		}
		stalePub = append(stalePub, curPub)
		curPub = np
		r.Hit("wallet-passphrase-probes", 1)
		return true
	}
	steps := 6 + rg.Intn(6)
	for s := 0; s < steps; s++ {
		kind := []string{"both", "both", "both", "private", "public"}[rg.Intn(5)]
		pubOK, privOK := rg.Intn(3) != 0, rg.Intn(3) != 0
		oldPub, oldPriv := curPub, curPriv
		if !pubOK {
			oldPub = append(append([]byte(nil), curPub...), 'x')
			if len(stalePub) > 0 && rg.Intn(2) == 0 {
				oldPub = stalePub[rg.Intn(len(stalePub))]
			}
		}
		if !privOK {
			oldPriv = append(append([]byte(nil), curPriv...), 'x')
			if len(stalePriv) > 0 && rg.Intn(2) == 0 {
				oldPriv = stalePriv[rg.Intn(len(stalePriv))]
			}
		}
		newPub, newPriv := fresh("pub"), fresh("priv")
		unlockedFirst := rg.Intn(2) == 0
		if unlockedFirst {
			if err := h.W.Unlock(append([]byte(nil), curPriv...), nil); err != nil {
				fail("c05:right-passphrase-rejected:wallet", fmt.Sprintf("before attempt %d: %v", s, err))
				return
			}
		}
		var err error
		wantErr := false
		c := func(b []byte) []byte { return append([]byte(nil), b...) }
		switch kind {
		case "both":
			err = h.W.ChangePassphrases(c(oldPub), c(newPub), c(oldPriv), c(newPriv))
			wantErr = !pubOK || !privOK
		case "private":
			err = h.W.ChangePrivatePassphrase(c(oldPriv), c(newPriv))
			wantErr = !privOK
		case "public":
			err = h.W.ChangePublicPassphrase(c(oldPub), c(newPub))
			wantErr = !pubOK
		}
		desc := fmt.Sprintf("attempt %d: change %s (old public right=%v, old private right=%v, wallet unlocked=%v) -> %v", s, kind, pubOK, privOK, unlockedFirst, err)
		log = append(log, desc)
		r.Hit("wallet-passphrase-changes:"+kind, 1)
		if (err != nil) != wantErr {
			fail("c05:passphrase-change-outcome:wallet", desc)
			return
		}
		if err == nil {
			if kind != "private" {
				stalePub = append(stalePub, curPub)
				curPub = newPub
			}
			if kind != "public" {
				stalePriv = append(stalePriv, curPriv)
				curPriv = newPriv
			}
		} else {
			// a refused change changes nothing: the proposed new ones stay invalid
			r.Hit("wallet-passphrase-changes-refused", 1)
			if kind != "private" {
				stalePub = append(stalePub, newPub)
			}
			if kind != "public" {
				stalePriv = append(stalePriv, newPriv)
			}
		}
		h.W.Lock()
		if len(stalePriv) > 6 {
			stalePriv = stalePriv[len(stalePriv)-6:]
		}
		if len(stalePub) > 6 {
			stalePub = stalePub[len(stalePub)-6:]
		}
		if !probe("after " + desc) {
			return
		}
		if rg.Intn(3) == 0 {
			h.Stop()
			h.PubPass = c(curPub)
			if err := h.Open(0, false); err != nil {
				if errors.Is(err, wh.ErrNotSynced) {
					r.Inconclusive("resync watchdog")
					return
				}
				fail("c05:right-passphrase-rejected:wallet-public", fmt.Sprintf("restart after %s: the wallet does not open with the current public passphrase %q: %v", desc, curPub, err))
				return
			}
			log = append(log, "restart")
			r.Hit("wallet-passphrase-restarts", 1)
			if !probe("after a restart following " + desc) {
				return
			}
		}
	}
	r.Case(fmt.Sprint(log), true)
}

var _ = waddrmgr.KeyScopeBIP0084
var _ = time.Second
