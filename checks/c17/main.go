// C17 — stored ciphertexts are authenticated and bound to the right passphrase.
//
// Monitor: exhaustive position sweeps (every single-bit flip, every truncation
// length) over ciphertexts of many plaintext lengths, wrong keys, nonce
// distinctness, an independent secretbox/scrypt oracle for what Encrypt and
// NewSecretKey must have produced, passphrase near-miss batteries, parameter
// round trips, and the same through waddrmgr.Manager.Encrypt/Decrypt.
package main

import (
	"bytes"
	"crypto/sha256"
	"errors"
	"fmt"
	"math/rand"
	"os"
	"path/filepath"
	"sync"
	"sync/atomic"
	"time"

	"github.com/btcsuite/btcd/btcutil/hdkeychain"
	"github.com/btcsuite/btcd/chaincfg"
	"github.com/btcsuite/btcwallet/snacl"
	"github.com/btcsuite/btcwallet/waddrmgr"
	"github.com/btcsuite/btcwallet/walletdb"
	_ "github.com/btcsuite/btcwallet/walletdb/bdb"
	"golang.org/x/crypto/nacl/secretbox"
	"golang.org/x/crypto/scrypt"

	"verif/internal/evid"
)

const P = "C17"

func main() {
	r := evid.New(P, "exploration")
	r.Rule("plaintext lengths x (round trip, independent secretbox open, every single-bit flip, every truncation, wrong keys); nonce distinctness over repeated encryptions, sequentially and from 8..16 goroutines at once; passphrases x (exact, every single-byte edit/deletion/insertion/case flip, empty, prefix/suffix); parameter blobs x (round trip, every wrong length, every byte edit); a real waddrmgr.Manager: Encrypt/Decrypt of the three key types with every bit flip and truncation, and four private passphrase changes (locked or unlocked) each followed, in the state the change left behind, from the locked state and after reopening, by Unlock with every previous passphrase (newest first), a near miss and the current one (twice). A case is non-trivial when it contains at least one rejected mutation; distinct = distinct (kind,length/passphrase) pairs.")
	r.Trusted("golang.org/x/crypto/nacl/secretbox (independent open)", "golang.org/x/crypto/scrypt (independent derivation)", "crypto/sha256")
	r.Assume("scrypt N=16,r=8,p=1 is used for speed; the code path is parameter-independent")
	rng := rand.New(rand.NewSource(r.Seed))

	lengths := []int{0, 1, 2, 15, 16, 17, 31, 32, 33, 63, 64, 65, 78, 100, 111, 255, 256, 300}
	if !r.Quick() {
		lengths = nil
		for n := 0; n <= 300; n++ {
			lengths = append(lengths, n)
		}
		lengths = append(lengths, 1000, 4096)
	}
	r.Parallel("cipher", len(lengths), evid.Workers(), func(i int, cs int64) {
		n := lengths[0]
		rg := rand.New(rand.NewSource(cs))
		if i >= 0 {
			n = lengths[i]
		} else {
			n = rg.Intn(300)
		}
		cipherCase(r, rg, n, cs)
	})
	if r.ReplayOf() == nil || r.ReplayOf().Phase == "nonce" {
		nonceCase(r, r.N(3000, 200000))
	}
	if r.ReplayOf() == nil || r.ReplayOf().Phase == "nonce-concurrent" {
		concurrentNonceCase(r, r.N(8, 16), r.N(4000, 60000))
	}
	npass := r.N(12, 1500)
	r.Parallel("passphrase", npass, evid.Workers(), func(i int, cs int64) {
		passCase(r, rand.New(rand.NewSource(cs)), i, cs)
	})
	r.Parallel("manager", r.N(2, 60), 4, func(i int, cs int64) {
		managerCase(r, rand.New(rand.NewSource(cs)), cs)
	})
	_ = rng
	r.Require("bitflips_rejected", 1000)
	r.Require("truncations_rejected", 100)
	r.Require("nearmiss_passphrases_rejected", 100)
	os.Exit(r.Finish())
}

func cipherCase(r *evid.Run, rg *rand.Rand, n int, cs int64) {
	key, err := snacl.GenerateCryptoKey()
	if err != nil {
		r.Violation("generate-key-error", err.Error(), "cipher", cs, nil)
		return
	}
	pt := make([]byte, n)
	rg.Read(pt)
	ptCopy := append([]byte(nil), pt...)
	ct, err := key.Encrypt(pt)
	if err != nil {
		r.Violation("encrypt-error", err.Error(), "cipher", cs, map[string]any{"len": n})
		return
	}
	if !bytes.Equal(pt, ptCopy) {
		r.Violation("encrypt-mutates-input", "Encrypt changed its input", "cipher", cs, map[string]any{"len": n})
	}
	out, err := key.Decrypt(ct)
	if err != nil || !bytes.Equal(out, pt) {
		r.Violation("roundtrip", fmt.Sprintf("Decrypt(Encrypt(pt)) != pt (len %d, err %v)", n, err), "cipher", cs, map[string]any{"len": n})
	}
	r.Hit("roundtrips", 1)
	// independent oracle: the ciphertext must be nonce||secretbox under the key
	if len(ct) != snacl.NonceSize+secretbox.Overhead+n {
		r.Violation("ciphertext-shape", fmt.Sprintf("ciphertext length %d for plaintext %d", len(ct), n), "cipher", cs, nil)
	} else {
		var nonce [24]byte
		copy(nonce[:], ct[:24])
		k := [32]byte(*key)
		o, ok := secretbox.Open(nil, ct[24:], &nonce, &k)
		if !ok || !bytes.Equal(o, pt) {
			r.Violation("not-authenticated-box", "independent secretbox.Open rejects the ciphertext", "cipher", cs, map[string]any{"len": n})
		}
		r.Hit("independent_opens", 1)
	}
	// the plaintext must not appear in the ciphertext
	if n >= 8 && bytes.Contains(ct, pt) {
		r.Violation("plaintext-in-ciphertext", "ciphertext contains the plaintext", "cipher", cs, map[string]any{"len": n})
	}
	// every single-bit flip
	rejected := 0
	for bit := 0; bit < len(ct)*8; bit++ {
		c2 := append([]byte(nil), ct...)
		c2[bit/8] ^= 1 << (bit % 8)
		o, err := key.Decrypt(c2)
		if err == nil || o != nil {
			r.Violation("bitflip-accepted", fmt.Sprintf("flip of bit %d of a %d-byte ciphertext accepted (err=%v, %d bytes returned)", bit, len(ct), err, len(o)), "cipher", cs, map[string]any{"len": n, "bit": bit})
			break
		}
		rejected++
	}
	r.Hit("bitflips_rejected", rejected)
	// every truncation length (and a few extensions)
	tr := 0
	for l := 0; l < len(ct); l++ {
		o, err := key.Decrypt(ct[:l])
		if err == nil || o != nil {
			r.Violation("truncation-accepted", fmt.Sprintf("truncation to %d of %d bytes accepted", l, len(ct)), "cipher", cs, map[string]any{"len": n, "trunc": l})
			break
		}
		tr++
	}
	for _, extra := range []int{1, 16, 24} {
		o, err := key.Decrypt(append(append([]byte(nil), ct...), make([]byte, extra)...))
		if err == nil || o != nil {
			r.Violation("extension-accepted", fmt.Sprintf("ciphertext extended by %d bytes accepted", extra), "cipher", cs, nil)
		}
		tr++
	}
	r.Hit("truncations_rejected", tr)
	// wrong keys: random, one-bit neighbours of the right key, zero key
	wk := 0
	try := func(k *snacl.CryptoKey, what string) {
		o, err := k.Decrypt(ct)
		if err == nil || o != nil {
			r.Violation("wrong-key-accepted", "decryption under "+what+" key succeeded", "cipher", cs, map[string]any{"len": n})
		}
		wk++
	}
	for j := 0; j < 8; j++ {
		k2, _ := snacl.GenerateCryptoKey()
		try(k2, "a random other")
	}
	for j := 0; j < 16; j++ {
		k2 := *key
		k2[rg.Intn(32)] ^= 1 << uint(rg.Intn(8))
		try(&k2, "a one-bit-different")
	}
	var zk snacl.CryptoKey
	try(&zk, "the all-zero")
	r.Hit("wrong_keys_rejected", wk)
	r.Case(fmt.Sprintf("cipher/%d", n), rejected > 0)
	if r.WantSample() && n > 0 && n < 40 {
		r.Sample(map[string]any{"kind": "cipher", "plaintext_len": n, "ciphertext_len": len(ct), "bitflips_tried": rejected, "truncations_tried": tr, "wrong_keys_tried": wk})
	}
}

// concurrentNonceCase: the same plaintext encrypted under the same key by
// several goroutines at once (scoped managers and wallets encrypt in parallel
// without a common lock): still no two equal ciphertexts, no nonce used twice.
func concurrentNonceCase(r *evid.Run, g, n int) {
	key, _ := snacl.GenerateCryptoKey()
	pt := []byte("same plaintext, many goroutines")
	outs := make([][][]byte, g)
	var wg sync.WaitGroup
	start := make(chan struct{})
	for i := 0; i < g; i++ {
		wg.Add(1)
		go func(i int) {
			defer wg.Done()
			<-start
			for k := 0; k < n; k++ {
				ct, err := key.Encrypt(pt)
				if err != nil {
					return
				}
				outs[i] = append(outs[i], ct)
			}
		}(i)
	}
	close(start)
	wg.Wait()
	seen := map[string]bool{}
	total := 0
	for i := range outs {
		for _, ct := range outs[i] {
			total++
			if len(ct) < 24 {
				continue
			}
			if seen[string(ct[:24])] {
				r.Violation("nonce-reuse-under-concurrency", fmt.Sprintf("%d goroutines x %d encryptions of one plaintext under one key: a 24-byte nonce was used twice (after %d ciphertexts)", g, n, total), "nonce-concurrent", 0, nil)
				return
			}
			seen[string(ct[:24])] = true
		}
	}
	r.Hit("concurrent_encryptions_distinct_nonces", total)
}

func nonceCase(r *evid.Run, n int) {
	key, _ := snacl.GenerateCryptoKey()
	seenCT := map[string]bool{}
	seenNonce := map[string]bool{}
	for _, pt := range [][]byte{[]byte("same plaintext"), {}} {
		for i := 0; i < n; i++ {
			ct, err := key.Encrypt(pt)
			if err != nil {
				r.Violation("encrypt-error", err.Error(), "nonce", 0, nil)
				return
			}
			if seenCT[string(ct)] {
				r.Violation("equal-ciphertexts", fmt.Sprintf("two encryptions of the same plaintext gave equal ciphertexts (after %d)", i), "nonce", 0, nil)
				return
			}
			seenCT[string(ct)] = true
			if len(ct) >= 24 {
				if seenNonce[string(ct[:24])] {
					r.Violation("nonce-reuse", fmt.Sprintf("nonce reused after %d encryptions", i), "nonce", 0, nil)
					return
				}
				seenNonce[string(ct[:24])] = true
			}
		}
	}
	r.Hit("distinct_ciphertexts", len(seenCT))
	r.Case("nonce", true)
}

func passCase(r *evid.Run, rg *rand.Rand, i int, cs int64) {
	var pass []byte
	switch i % 6 {
	case 0:
		pass = []byte("correct horse battery staple")
	case 1:
		pass = []byte{byte(rg.Intn(256))}
	case 2:
		pass = []byte("p")
	case 3:
		pass = []byte("Passw0rd\x00with\x00nuls")
	default:
		pass = make([]byte, 1+rg.Intn(40))
		rg.Read(pass)
	}
	if i == 5 {
		pass = []byte{} // empty passphrase is a passphrase too
	}
	orig := append([]byte(nil), pass...)
	// every cost parameter set scrypt accepts is a valid stored encoding, the
	// smallest ones included
	cost := [][3]int{{16, 8, 1}, {2, 1, 1}, {2, 8, 1}, {4, 1, 1}, {16, 1, 2}, {32, 2, 1}, {64, 8, 2}, {8, 3, 3}}[i%8]
	sk, err := snacl.NewSecretKey(&pass, cost[0], cost[1], cost[2])
	if err != nil {
		r.Violation("newsecretkey-error", err.Error(), "passphrase", cs, nil)
		return
	}
	r.Hit(fmt.Sprintf("scrypt-cost-N%d-r%d-p%d", cost[0], cost[1], cost[2]), 1)
	// independent derivation
	want, _ := scrypt.Key(orig, sk.Parameters.Salt[:], cost[0], cost[1], cost[2], 32)
	if !bytes.Equal(want, sk.Key[:]) {
		r.Violation("key-not-scrypt-of-passphrase", "NewSecretKey's key differs from scrypt(passphrase, salt)", "passphrase", cs, map[string]any{"pass": fmt.Sprintf("%x", orig)})
	}
	if d := sha256.Sum256(want); d != sk.Parameters.Digest {
		r.Violation("digest-mismatch", "stored digest is not sha256 of the derived key", "passphrase", cs, nil)
	}
	keyBytes := *sk.Key
	blob := sk.Marshal()
	// round trip of parameters: fresh key object, as after restart
	var sk2 snacl.SecretKey
	if err := sk2.Unmarshal(blob); err != nil {
		r.Violation("unmarshal-error", err.Error(), "passphrase", cs, nil)
		return
	}
	if sk2.Parameters != sk.Parameters {
		r.Violation("params-roundtrip", "Unmarshal(Marshal()) changed the parameters", "passphrase", cs, nil)
	}
	p := append([]byte(nil), orig...)
	if err := sk2.DeriveKey(&p); err != nil || *sk2.Key != keyBytes {
		r.Violation("right-passphrase-rejected", fmt.Sprintf("exact passphrase after parameter round trip: err=%v sameKey=%v", err, *sk2.Key == keyBytes), "passphrase", cs, map[string]any{"pass": fmt.Sprintf("%x", orig)})
	}
	r.Hit("right_passphrases_accepted", 1)
	ct, _ := sk.Encrypt([]byte("payload"))
	// near misses
	var cands [][]byte
	for j := 0; j <= len(orig); j++ {
		if j < len(orig) {
			cands = append(cands, append(append([]byte(nil), orig[:j]...), orig[j+1:]...)) // deletion
			c := append([]byte(nil), orig...)
			c[j] ^= 0x20
			cands = append(cands, c) // case flip
			c = append([]byte(nil), orig...)
			c[j] ^= 0x01
			cands = append(cands, c)
			c = append([]byte(nil), orig...)
			c[j] = 0
			cands = append(cands, c)
		}
		cands = append(cands, append(append(append([]byte(nil), orig[:j]...), 'x'), orig[j:]...)) // insertion
		cands = append(cands, append(append(append([]byte(nil), orig[:j]...), 0), orig[j:]...))
	}
	cands = append(cands, []byte{}, append(append([]byte(nil), orig...), orig...), []byte(" "+string(orig)), []byte(string(orig)+" "))
	rej := 0
	for _, c := range cands {
		if bytes.Equal(c, orig) || hmacEquivalent(c, orig) {
			continue
		}
		var s3 snacl.SecretKey
		if err := s3.Unmarshal(blob); err != nil {
			r.Violation("unmarshal-error", err.Error(), "passphrase", cs, nil)
			return
		}
		cc := append([]byte(nil), c...)
		err := s3.DeriveKey(&cc)
		if !errors.Is(err, snacl.ErrInvalidPassword) {
			r.Violation("wrong-passphrase-accepted", fmt.Sprintf("passphrase %q (right one %q) -> err=%v", c, orig, err), "passphrase", cs, map[string]any{"right": fmt.Sprintf("%x", orig), "tried": fmt.Sprintf("%x", c)})
			break
		}
		// and whatever key it derived must not open data sealed under the right one
		if o, err := s3.Decrypt(ct); err == nil || o != nil {
			r.Violation("wrong-passphrase-decrypts", fmt.Sprintf("key derived from wrong passphrase %q decrypts", c), "passphrase", cs, nil)
			break
		}
		rej++
	}
	r.Hit("nearmiss_passphrases_rejected", rej)
	// the parameters are re-marshalled (as a passphrase change or a later save
	// would) by a key object whose in-memory key is NOT the right one at that
	// moment -- after a rejected passphrase, and after Zero(): what is stored must
	// still be bound to the original passphrase only
	for _, state := range []string{"after a rejected passphrase", "after Zero()"} {
		var s7 snacl.SecretKey
		if err := s7.Unmarshal(blob); err != nil {
			break
		}
		wrong := append(append([]byte(nil), orig...), 'x')
		if state == "after Zero()" {
			pp := append([]byte(nil), orig...)
			s7.DeriveKey(&pp)
			s7.Zero()
		} else {
			s7.DeriveKey(&wrong)
		}
		blob2 := s7.Marshal()
		var s8 snacl.SecretKey
		if err := s8.Unmarshal(blob2); err != nil {
			r.Violation("unmarshal-error", fmt.Sprintf("parameters re-marshalled %s: %v", state, err), "passphrase", cs, nil)
			break
		}
		pp := append([]byte(nil), orig...)
		if err := s8.DeriveKey(&pp); err != nil || *s8.Key != keyBytes {
			r.Violation("right-passphrase-rejected:re-marshalled", fmt.Sprintf("parameters re-marshalled %s no longer accept the exact passphrase: %v", state, err), "passphrase", cs, nil)
			break
		}
		var s9 snacl.SecretKey
		s9.Unmarshal(blob2)
		w2 := append(append([]byte(nil), orig...), 'x')
		if err := s9.DeriveKey(&w2); !errors.Is(err, snacl.ErrInvalidPassword) {
			r.Violation("wrong-passphrase-accepted:re-marshalled", fmt.Sprintf("parameters re-marshalled %s accept the wrong passphrase %q: err=%v", state, w2, err), "passphrase", cs, nil)
			break
		}
		r.Hit("remarshalled_parameter_blobs_checked", 1)
	}
	// malformed parameter blobs: every wrong length
	ml := 0
	for l := 0; l <= len(blob)+8; l++ {
		if l == len(blob) {
			continue
		}
		b := make([]byte, l)
		copy(b, blob)
		var s4 snacl.SecretKey
		if err := s4.Unmarshal(b); err == nil {
			r.Violation("malformed-params-accepted", fmt.Sprintf("parameter blob of length %d accepted (valid is %d)", l, len(blob)), "passphrase", cs, nil)
			break
		}
		ml++
	}
	r.Hit("malformed_param_lengths_rejected", ml)
	// every single-byte edit of salt/digest must make the right passphrase fail
	// (N/r/p edits may make scrypt itself fail or derive another key: any error is fine,
	// but it must never yield the right key silently accepted with other params)
	ed := 0
	for j := 0; j < 64; j++ {
		b := append([]byte(nil), blob...)
		b[j] ^= 1 << uint(rg.Intn(8))
		var s5 snacl.SecretKey
		if err := s5.Unmarshal(b); err != nil {
			continue
		}
		p := append([]byte(nil), orig...)
		if err := s5.DeriveKey(&p); err == nil {
			r.Violation("edited-params-accepted", fmt.Sprintf("passphrase accepted although byte %d of salt/digest was altered", j), "passphrase", cs, nil)
			break
		}
		ed++
	}
	r.Hit("edited_params_rejected", ed)
	// cost parameters (N, r, p: bytes 64..87 of the blob): any edit changes the derived
	// key or makes scrypt refuse; the right passphrase must not be accepted silently
	for j := 64; j < 88; j++ {
		b := append([]byte(nil), blob...)
		b[j] ^= 1 << uint(rg.Intn(8))
		var s6 snacl.SecretKey
		if err := s6.Unmarshal(b); err != nil {
			continue
		}
		if s6.Parameters.N > 1<<14 || s6.Parameters.R > 64 || s6.Parameters.P > 64 || s6.Parameters.N < 0 || s6.Parameters.R <= 0 || s6.Parameters.P <= 0 {
			continue // would only cost memory/time
		}
		p := append([]byte(nil), orig...)
		if err := s6.DeriveKey(&p); err == nil {
			r.Violation("edited-params-accepted", fmt.Sprintf("passphrase accepted although cost parameter byte %d was altered (N=%d r=%d p=%d)", j, s6.Parameters.N, s6.Parameters.R, s6.Parameters.P), "passphrase", cs, nil)
			break
		}
		r.Hit("edited_cost_params_rejected", 1)
	}
	// unusable cost parameters must be refused at creation, never yield a key
	for _, bad := range [][3]int{{0, 8, 1}, {1, 8, 1}, {3, 8, 1}, {1000, 8, 1}, {16, 1 << 15, 1 << 15}} /* r=0 / p=0 panic inside x/crypto/scrypt itself: not generated */ {
		p := append([]byte(nil), orig...)
		k, err := snacl.NewSecretKey(&p, bad[0], bad[1], bad[2])
		if err == nil {
			what := fmt.Sprintf("NewSecretKey with unusable scrypt parameters N=%d r=%d p=%d returned a key instead of an error", bad[0], bad[1], bad[2])
			if k != nil && k.Key != nil && *k.Key == (snacl.CryptoKey{}) {
				what += " (the all-zero key, for every passphrase)"
			}
			r.Violation("unusable-params-accepted", what, "passphrase", cs, nil)
			break
		}
		r.Hit("unusable_cost_params_refused", 1)
	}
	r.Case(fmt.Sprintf("pass/%x", orig), rej > 0)
	if r.WantSample() {
		r.Sample(map[string]any{"kind": "passphrase", "passphrase_hex": fmt.Sprintf("%x", orig), "near_misses_rejected": rej, "malformed_lengths_rejected": ml, "edited_param_bytes_rejected": ed})
	}
}

// hmacEquivalent: scrypt feeds the passphrase to PBKDF2-HMAC-SHA256 as the HMAC
// key, and HMAC zero-pads keys shorter than its block size, so two passphrases
// of at most 64 bytes that differ only in trailing NUL bytes are the same key
// to the primitive itself (DESIGN O-10). That equivalence is a property of the
// trusted primitive, not of the code under test.
func hmacEquivalent(a, b []byte) bool {
	if len(a) > 64 || len(b) > 64 {
		return false
	}
	return bytes.Equal(bytes.TrimRight(a, "\x00"), bytes.TrimRight(b, "\x00"))
}

func managerCase(r *evid.Run, rg *rand.Rand, cs int64) {
	dir, derr := os.MkdirTemp("", "c17")
	if derr != nil {
		r.Inconclusive("no scratch directory: " + derr.Error())
		return
	}
	defer os.RemoveAll(dir)
	db, err := walletdb.Create("bdb", filepath.Join(dir, "w.db"), true, 10*time.Second, false)
	if err != nil {
		r.Inconclusive("cannot create db: " + err.Error())
		return
	}
	defer db.Close()
	seed := make([]byte, 32)
	rg.Read(seed)
	params := &chaincfg.RegressionNetParams
	root, _ := hdkeychain.NewMaster(seed, params)
	ns := []byte("waddrmgr")
	var m *waddrmgr.Manager
	err = walletdb.Update(db, func(tx walletdb.ReadWriteTx) error {
		b, err := tx.CreateTopLevelBucket(ns)
		if err != nil {
			return err
		}
		if err := waddrmgr.Create(b, root, []byte("pub"), []byte("priv"), params, &waddrmgr.FastScryptOptions, time.Unix(1600000000, 0)); err != nil {
			return err
		}
		m, err = waddrmgr.Open(b, []byte("pub"), params)
		if err != nil {
			return err
		}
		return m.Unlock(b, []byte("priv"))
	})
	if err != nil {
		r.Violation("manager-setup", err.Error(), "manager", cs, nil)
		return
	}
	defer m.Close()
	types := []waddrmgr.CryptoKeyType{waddrmgr.CKTPublic, waddrmgr.CKTPrivate, waddrmgr.CKTScript}
	for _, kt := range types {
		for _, n := range []int{0, 1, 33, 78, 200} {
			pt := make([]byte, n)
			rg.Read(pt)
			ct, err := m.Encrypt(kt, pt)
			if err != nil {
				r.Violation("manager-encrypt-error", err.Error(), "manager", cs, nil)
				continue
			}
			out, err := m.Decrypt(kt, ct)
			if err != nil || !bytes.Equal(out, pt) {
				r.Violation("manager-roundtrip", fmt.Sprintf("key type %d len %d: err=%v", kt, n, err), "manager", cs, nil)
			}
			rej := 0
			for bit := 0; bit < len(ct)*8; bit++ {
				c2 := append([]byte(nil), ct...)
				c2[bit/8] ^= 1 << (bit % 8)
				if o, err := m.Decrypt(kt, c2); err == nil || o != nil {
					r.Violation("manager-bitflip-accepted", fmt.Sprintf("key type %d: bit %d", kt, bit), "manager", cs, nil)
					break
				}
				rej++
			}
			for l := 0; l < len(ct); l++ {
				if o, err := m.Decrypt(kt, ct[:l]); err == nil || o != nil {
					r.Violation("manager-truncation-accepted", fmt.Sprintf("key type %d: len %d", kt, l), "manager", cs, nil)
					break
				}
				rej++
			}
			// a ciphertext of one key type must not open under another (public vs private keys differ)
			for _, other := range types {
				if other == kt || (kt != waddrmgr.CKTPublic && other != waddrmgr.CKTPublic) {
					continue // private vs script: see DESIGN O-2 (both gated by the lock; not part of C17)
				}
				if o, err := m.Decrypt(other, ct); err == nil || o != nil {
					r.Violation("manager-cross-key-accepted", fmt.Sprintf("ciphertext of key type %d opens under key type %d", kt, other), "manager", cs, nil)
				}
				rej++
			}
			r.Hit("manager_mutations_rejected", rej)
			r.Case(fmt.Sprintf("mgr/%d/%d", kt, n), rej > 0)
		}
	}
	// the manager's passphrase-derived master key: after every private
	// passphrase change (done locked or unlocked) ONLY the current passphrase is
	// accepted, whatever the lock state at the time of the attempt and also
	// after the manager is reopened (stored parameters round-trip)
	cur := []byte("priv")
	var olds [][]byte
	unlock := func(p []byte) error {
		return walletdb.View(db, func(tx walletdb.ReadTx) error { return m.Unlock(tx.ReadBucket(ns), append([]byte(nil), p...)) })
	}
	for round := 0; round < 4; round++ {
		next := []byte(fmt.Sprintf("pass-%d-%d", round, rg.Intn(1e6)))
		if rg.Intn(2) == 0 {
			// long passphrases: longer than one SHA-512 block together with the salt
			next = append(next, bytes.Repeat([]byte("0123456789abcdef"), 7+rg.Intn(4))...)
			r.Hit("manager_long_passphrases", 1)
		}
		whileUnlocked := rg.Intn(2) == 0
		if whileUnlocked {
			r.Hit("manager_passphrase_changes_while_unlocked", 1)
			if err := unlock(cur); err != nil {
				r.Violation("manager-current-passphrase-rejected", fmt.Sprintf("round %d: Unlock(current) failed: %v", round, err), "manager", cs, nil)
				return
			}
		} else {
			m.Lock()
		}
		err := walletdb.Update(db, func(tx walletdb.ReadWriteTx) error {
			return m.ChangePassphrase(tx.ReadWriteBucket(ns), cur, next, true, &waddrmgr.FastScryptOptions)
		})
		if err != nil {
			r.Violation("manager-change-passphrase", err.Error(), "manager", cs, nil)
			return
		}
		olds = append(olds, cur)
		cur = next
		// attempts in the state the change left behind, then from the locked state, then after reopen
		for _, state := range []string{"as-left", "locked", "reopened"} {
			switch state {
			case "locked":
				m.Lock()
			case "reopened":
				m.Close()
				err := walletdb.View(db, func(tx walletdb.ReadTx) error {
					var e error
					m, e = waddrmgr.Open(tx.ReadBucket(ns), []byte("pub"), params)
					return e
				})
				if err != nil {
					r.Violation("manager-reopen", err.Error(), "manager", cs, nil)
					return
				}
			}
			// wrong candidates: every previous passphrase (newest first) and near
			// misses of the current one, incl. ones that differ only far into a long
			// passphrase
			var wrong [][]byte
			for i := len(olds) - 1; i >= 0; i-- {
				wrong = append(wrong, olds[i])
			}
			wrong = append(wrong, append(append([]byte(nil), cur...), 'x'), cur[:len(cur)-1])
			flip := append([]byte(nil), cur...)
			flip[len(flip)-1] ^= 1
			wrong = append(wrong, flip)
			if len(cur) > 100 {
				wrong = append(wrong, cur[:96], cur[:100])
			}
			for wi, wp := range wrong {
				// the first candidate meets the state as it is; every candidate is also
				// tried against a manager unlocked with the current passphrase just
				// before, and against a locked one
				for _, pre := range []string{"as-is", "unlocked", "locked"} {
					if pre == "as-is" && wi > 0 {
						continue
					}
					switch pre {
					case "unlocked":
						if err := unlock(cur); err != nil {
							r.Violation("manager-current-passphrase-rejected", fmt.Sprintf("round %d (%s, changed while unlocked=%v): Unlock(current passphrase, %d bytes) failed: %v", round, state, whileUnlocked, len(cur), err), "manager", cs, nil)
							return
						}
					case "locked":
						m.Lock()
					}
					wasLocked := m.IsLocked()
					if err := unlock(wp); err == nil {
						key := "manager-near-miss-passphrase-accepted"
						if wi < len(olds) {
							key = "manager-old-passphrase-accepted"
						}
						r.Violation(key, fmt.Sprintf("round %d (%s, manager locked before the attempt: %v, changed while unlocked=%v): %d-byte passphrase %q unlocks the manager; the current passphrase is the %d-byte %q", round, state, wasLocked, whileUnlocked, len(wp), wp, len(cur), cur), "manager", cs, nil)
						return
					}
					if !m.IsLocked() {
						r.Violation("manager-unlocked-after-wrong-passphrase", fmt.Sprintf("round %d (%s): the manager is unlocked after Unlock with a wrong passphrase", round, state), "manager", cs, nil)
						return
					}
					r.Hit("manager_wrong_passphrases_rejected", 1)
				}
			}
			if err := unlock(cur); err != nil {
				r.Violation("manager-current-passphrase-rejected", fmt.Sprintf("round %d (%s, changed while unlocked=%v): Unlock(current passphrase) failed: %v", round, state, whileUnlocked, err), "manager", cs, nil)
				return
			}
			// and once more while already unlocked
			if err := unlock(cur); err != nil {
				r.Violation("manager-current-passphrase-rejected", fmt.Sprintf("round %d (%s, second Unlock while unlocked): %v", round, state, err), "manager", cs, nil)
				return
			}
			r.Hit("manager_passphrase_states_checked", 1)
		}
	}
	// Encrypt racing with Lock: every ciphertext Manager.Encrypt hands out while
	// another goroutine locks and unlocks the manager must be a ciphertext under
	// the real private crypto key (it round-trips once unlocked again) and must
	// not open under the all-zero key a wiped key buffer amounts to.
	if err := unlock(cur); err != nil {
		r.Violation("manager-current-passphrase-rejected", "before the Encrypt/Lock race: "+err.Error(), "manager", cs, nil)
		return
	}
	type rec struct{ pt, ct []byte }
	var recs []rec
	var stop int32
	var wg sync.WaitGroup
	wg.Add(1)
	go func() {
		defer wg.Done()
		for atomic.LoadInt32(&stop) == 0 {
			m.Lock()
			unlock(cur)
		}
	}()
	nenc := r.N(6000, 60000)
	for k := 0; k < nenc; k++ {
		pt := []byte(fmt.Sprintf("plaintext-%d-%d", cs&0xffff, k))
		ct, err := m.Encrypt(waddrmgr.CKTPrivate, pt)
		if err == nil {
			recs = append(recs, rec{pt, ct})
		}
	}
	atomic.StoreInt32(&stop, 1)
	wg.Wait()
	if err := unlock(cur); err != nil {
		r.Violation("manager-current-passphrase-rejected", "after the Encrypt/Lock race: "+err.Error(), "manager", cs, nil)
		return
	}
	var zeroKey [32]byte
	for _, rc := range recs {
		if len(rc.ct) > 24 {
			var nonce [24]byte
			copy(nonce[:], rc.ct[:24])
			if _, ok := secretbox.Open(nil, rc.ct[24:], &nonce, &zeroKey); ok {
				r.Violation("manager-encrypt-under-wiped-key", fmt.Sprintf("Manager.Encrypt(CKTPrivate) returned success while another goroutine was locking the manager, and the ciphertext opens under the ALL-ZERO key (%d of %d encryptions succeeded)", len(recs), nenc), "manager", cs, nil)
				return
			}
		}
		out, err := m.Decrypt(waddrmgr.CKTPrivate, rc.ct)
		if err != nil || !bytes.Equal(out, rc.pt) {
			r.Violation("manager-roundtrip-after-lock-race", fmt.Sprintf("a ciphertext Manager.Encrypt(CKTPrivate) handed out while another goroutine was locking / unlocking does not decrypt under the same manager afterwards: %v", err), "manager", cs, nil)
			return
		}
	}
	r.Hit("manager_encryptions_racing_with_lock", len(recs))

	// A passphrase change inside a database transaction that is then rolled back
	// changes nothing: the running manager keeps accepting exactly the passphrases
	// whose parameters are stored (public: as the old passphrase of a further
	// change; private: Unlock), and refuses the ones that were never committed.
	errRB := errors.New("rolled back on purpose")
	pubCur := []byte("pub")
	for i := 0; i < 3; i++ {
		rbPub, rbPriv := []byte(fmt.Sprintf("pub-never-%d", i)), []byte(fmt.Sprintf("priv-never-%d", i))
		private := i%2 == 1
		walletdb.Update(db, func(tx walletdb.ReadWriteTx) error {
			var e error
			if private {
				e = m.ChangePassphrase(tx.ReadWriteBucket(ns), append([]byte(nil), cur...), rbPriv, true, &waddrmgr.FastScryptOptions)
			} else {
				e = m.ChangePassphrase(tx.ReadWriteBucket(ns), append([]byte(nil), pubCur...), rbPub, false, &waddrmgr.FastScryptOptions)
			}
			if e != nil {
				return e
			}
			return errRB
		})
		if private {
			m.Lock()
			if err := unlock(rbPriv); err == nil {
				r.Violation("manager-rolled-back-passphrase-accepted", "the private passphrase of a change whose transaction was rolled back unlocks the running manager", "manager", cs, nil)
				return
			}
			if err := unlock(cur); err != nil {
				r.Violation("manager-current-passphrase-rejected", fmt.Sprintf("after a private passphrase change was rolled back, Unlock(current passphrase) fails: %v", err), "manager", cs, nil)
				return
			}
		} else {
			// probe through further (rolled-back) changes naming each candidate as the old passphrase
			try := func(old []byte) error {
				var e error
				walletdb.Update(db, func(tx walletdb.ReadWriteTx) error {
					e = m.ChangePassphrase(tx.ReadWriteBucket(ns), append([]byte(nil), old...), []byte("probe"), false, &waddrmgr.FastScryptOptions)
					return errRB
				})
				return e
			}
			if err := try(rbPub); err == nil {
				r.Violation("manager-rolled-back-passphrase-accepted", "the public passphrase of a change whose transaction was rolled back is accepted by the running manager as the current one", "manager", cs, nil)
				return
			}
			if err := try(pubCur); err != nil {
				r.Violation("manager-current-passphrase-rejected", fmt.Sprintf("after a public passphrase change was rolled back, the stored public passphrase is refused by the running manager: %v", err), "manager", cs, nil)
				return
			}
		}
		r.Hit("manager_rolled_back_passphrase_changes_checked", 1)
	}

	// A watching-only manager has no private or script crypto key (its buffers are
	// all-zero placeholders): it must not hand out "ciphertexts" sealed under them,
	// nor accept a ciphertext anybody could have made with the all-zero key, nor
	// open what the keyed manager sealed.
	var keyed []byte
	if len(recs) > 0 {
		keyed = recs[0].ct
	}
	err = walletdb.Update(db, func(tx walletdb.ReadWriteTx) error { return m.ConvertToWatchingOnly(tx.ReadWriteBucket(ns)) })
	if err != nil {
		r.Violation("manager-convert", err.Error(), "manager", cs, nil)
		return
	}
	m.Close()
	var wm *waddrmgr.Manager
	err = walletdb.View(db, func(tx walletdb.ReadTx) error {
		var e error
		wm, e = waddrmgr.Open(tx.ReadBucket(ns), []byte("pub"), params)
		return e
	})
	if err != nil {
		r.Violation("manager-reopen-watch-only", err.Error(), "manager", cs, nil)
		return
	}
	defer wm.Close()
	var fnonce [24]byte
	rg.Read(fnonce[:])
	forged := secretbox.Seal(fnonce[:], []byte("forged under the all-zero key"), &fnonce, &zeroKey)
	for _, kt := range []waddrmgr.CryptoKeyType{waddrmgr.CKTPrivate, waddrmgr.CKTScript} {
		if ct, err := wm.Encrypt(kt, []byte("secret")); err == nil {
			what := fmt.Sprintf("a watching-only manager (reopened) encrypts with key type %d", kt)
			if len(ct) > 24 {
				var n [24]byte
				copy(n[:], ct[:24])
				if _, ok := secretbox.Open(nil, ct[24:], &n, &zeroKey); ok {
					what += "; the ciphertext opens under the ALL-ZERO key, it is bound to no passphrase"
				}
			}
			r.Violation("manager-watch-only-encrypts", what, "manager", cs, nil)
			return
		}
		if out, err := wm.Decrypt(kt, forged); err == nil || out != nil {
			r.Violation("manager-watch-only-accepts-forged", fmt.Sprintf("a watching-only manager accepts, for key type %d, a ciphertext made with the all-zero key", kt), "manager", cs, nil)
			return
		}
		if keyed != nil && kt == waddrmgr.CKTPrivate {
			if out, err := wm.Decrypt(kt, keyed); err == nil || out != nil {
				r.Violation("manager-watch-only-decrypts", "a watching-only manager opens a ciphertext of the private crypto key", "manager", cs, nil)
				return
			}
		}
		r.Hit("manager_watch_only_private_key_requests_refused", 3)
	}
}
