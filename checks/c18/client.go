package main

import (
	"encoding/json"
	"fmt"
	"io"
	"net/http"
	"net/http/httptest"
	"strings"
	"sync/atomic"
	"time"

	"github.com/btcsuite/btcd/chaincfg"
	"github.com/btcsuite/btcwallet/chain"

	"verif/internal/evid"
)

// fakeBitcoind answers the handful of JSON-RPC methods chain.NewBitcoindConn
// and BitcoindClient.Start use.  failNext > 0 makes that many getblockchaininfo
// requests fail with "-28 loading block index" (a node that is still warming up).
type fakeBitcoind struct {
	failNext int32
	calls    int32
}

func (fb *fakeBitcoind) ServeHTTP(w http.ResponseWriter, req *http.Request) {
	body, _ := io.ReadAll(req.Body)
	var q struct {
		Method string            `json:"method"`
		ID     json.RawMessage   `json:"id"`
		Params []json.RawMessage `json:"params"`
	}
	json.Unmarshal(body, &q)
	atomic.AddInt32(&fb.calls, 1)
	gen := chaincfg.RegressionNetParams.GenesisHash.String()
	var result any
	var rpcErr any
	switch q.Method {
	case "getbestblock":
		result = map[string]any{"hash": gen, "height": 0}
	case "getblockhash", "getbestblockhash":
		result = gen
	case "getnetworkinfo":
		result = map[string]any{"version": 250000, "subversion": "/Satoshi:25.0.0/", "protocolversion": 70016}
	case "getblockchaininfo":
		if atomic.LoadInt32(&fb.failNext) > 0 {
			atomic.AddInt32(&fb.failNext, -1)
			rpcErr = map[string]any{"code": -28, "message": "Loading block index..."}
			break
		}
		result = map[string]any{"chain": "regtest", "blocks": 0, "headers": 0, "bestblockhash": gen, "difficulty": 1.0, "mediantime": 1296688602, "verificationprogress": 1.0, "initialblockdownload": false, "chainwork": "00", "pruned": false, "softforks": map[string]any{}}
	case "getblockheader":
		result = map[string]any{"hash": gen, "confirmations": 1, "height": 0, "version": 1, "versionHex": "00000001", "merkleroot": chaincfg.RegressionNetParams.GenesisBlock.Header.MerkleRoot.String(), "time": 1296688602, "nonce": 2, "bits": "207fffff", "difficulty": 1.0}
	default:
		rpcErr = map[string]any{"code": -32601, "message": "Method not found: " + q.Method}
	}
	w.Header().Set("Content-Type", "application/json")
	if rpcErr != nil {
		w.WriteHeader(500)
	}
	json.NewEncoder(w).Encode(map[string]any{"result": result, "error": rpcErr, "id": q.ID})
}

// clientProbe: the notification queue inside a real chain.BitcoindClient (one of
// the three embedders of ConcurrentQueue).  Whatever sequence of Start calls the
// client sees -- here: a Start that fails because the node is still warming up,
// followed by retries -- its queue must have exactly ONE worker (two workers on
// one queue race each other to the out channel: reordering, duplicates, losses),
// the client must announce itself once per queue start, and Stop must end the
// worker.  Decided from goroutine states and the received items.
func clientProbe(r *evid.Run, cs int64) {
	fb := &fakeBitcoind{}
	srv := httptest.NewServer(fb)
	defer srv.Close()
	conn, err := chain.NewBitcoindConn(&chain.BitcoindConfig{
		ChainParams:   &chaincfg.RegressionNetParams,
		Host:          strings.TrimPrefix(srv.URL, "http://"),
		User:          "u",
		Pass:          "p",
		PollingConfig: &chain.PollingConfig{BlockPollingInterval: time.Hour, TxPollingInterval: time.Hour},
	})
	if err != nil {
		r.Inconclusive("fake bitcoind not accepted by NewBitcoindConn: " + err.Error())
		return
	}
	for _, failures := range []int32{0, 1, 2} {
		client := conn.NewBitcoindClient()
		before := workerAlive()
		atomic.StoreInt32(&fb.failNext, failures)
		var errs []string
		for i := int32(0); i <= failures+1; i++ {
			errs = append(errs, fmt.Sprint(client.Start()))
		}
		// drain what the client announced
		got := 0
		deadline := time.After(2 * time.Second)
	drain:
		for {
			select {
			case n := <-client.Notifications():
				if _, ok := n.(chain.ClientConnected); ok {
					got++
				}
			case <-time.After(200 * time.Millisecond):
				break drain
			case <-deadline:
				break drain
			}
		}
		workers := workerAlive() - before
		desc := fmt.Sprintf("BitcoindClient: %d failing Start call(s) then %d more; results %v", failures, 2, errs)
		r.Hit("client-start-sequences", 1)
		if workers != 1 {
			r.Violation("c18:client:workers-per-queue", fmt.Sprintf("%s: the client's notification queue has %d worker goroutines, must be exactly 1", desc, workers), "client", cs, nil)
			client.Stop()
			return
		}
		if got != 1 {
			r.Violation("c18:client:announced-more-than-once", fmt.Sprintf("%s: %d ClientConnected notifications were delivered, want exactly 1", desc, got), "client", cs, nil)
			client.Stop()
			return
		}
		client.Stop()
		gone := false
		for i := 0; i < 1000; i++ {
			if workerAlive() <= before {
				gone = true
				break
			}
			time.Sleep(2 * time.Millisecond)
		}
		if !gone {
			r.Violation("c18:client:worker-alive-after-stop", desc+": the queue worker is still present after Stop()", "client", cs, nil)
			return
		}
		r.Hit("client-workers-exited", 1)
	}
	r.Case("client-probe", true)
}
