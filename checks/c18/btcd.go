package main

import (
	"fmt"
	"net/http/httptest"
	"runtime"
	"strings"
	"sync/atomic"
	"time"

	"github.com/btcsuite/btcd/chaincfg"
	"github.com/btcsuite/btcd/chaincfg/chainhash"
	"github.com/btcsuite/btcwallet/chain"

	"verif/internal/evid"
)

func btcdHandlers() int {
	buf := make([]byte, 8<<20)
	buf = buf[:runtime.Stack(buf, true)]
	return strings.Count(string(buf), "chain.(*RPCClient).handler(")
}

// btcdProbe: the third embedder of the notification queue, chain.RPCClient (the
// btcd backend), whose handler goroutine is its own copy of the unbounded-queue
// algorithm.  The monitor delivers BlockConnected notifications through the verif
// hook and reads the public Notifications() channel: every item once, in order,
// the producer never waits for the subscriber, and Stop ends the worker whatever
// is still queued and whether or not anybody is reading.
func btcdProbe(r *evid.Run, cs int64) {
	fb := &fakeBitcoind{}
	srv := httptest.NewServer(fb)
	defer srv.Close()
	params := &chaincfg.RegressionNetParams
	type scen struct {
		n, read int // notifications handed over, notifications read before Stop
		pace    int // 0 eager, 1 pauses, 2 idle until the producer is done
	}
	for si, sc := range []scen{{2000, 2000, 0}, {2000, 2000, 1}, {500, 500, 2}, {5, 1, 2}, {300, 0, 2}, {0, 0, 0}, {40, 39, 1}} {
		client, err := chain.VerifNewRPCClientHTTP(params, strings.TrimPrefix(srv.URL, "http://"), "u", "p")
		if err != nil {
			r.Inconclusive("btcd client over HTTP: " + err.Error())
			return
		}
		before := btcdHandlers()
		client.VerifStartHandler()
		var prodDone int32
		go func() {
			for i := 1; i <= sc.n; i++ {
				h := chainhash.Hash{byte(i), byte(i >> 8), byte(si), 0x42}
				client.VerifOnBlockConnected(&h, int32(i), time.Unix(1700000000+int64(i), 0))
			}
			atomic.StoreInt32(&prodDone, 1)
		}()
		desc := fmt.Sprintf("RPCClient (btcd): %d notifications handed over, %d read before Stop, subscriber pace %d", sc.n, sc.read, sc.pace)
		if sc.pace == 2 {
			// nobody reads: the producer must still get rid of everything
			ok := false
			for i := 0; i < 5000; i++ {
				if atomic.LoadInt32(&prodDone) == 1 {
					ok = true
					break
				}
				time.Sleep(2 * time.Millisecond)
			}
			if !ok {
				r.StopEarly()
				r.Violation("c18:client:producer-blocked", desc+": the producer has not finished although the queue is unbounded and nobody has to read for it to make progress (10 s)", "client-btcd", cs, nil)
				return
			}
			r.Hit("btcd-producer-finished-with-idle-subscriber", 1)
		}
		var got []int32
		for len(got) < sc.read {
			select {
			case n, ok := <-client.Notifications():
				if !ok {
					r.Violation("c18:client:notifications-lost", fmt.Sprintf("%s: the notification channel was closed after %d items", desc, len(got)), "client-btcd", cs, nil)
					return
				}
				if bc, isBlock := n.(chain.BlockConnected); isBlock {
					got = append(got, bc.Height)
				}
				if sc.pace == 1 && len(got)%7 == 0 {
					time.Sleep(100 * time.Microsecond)
				}
			case <-time.After(10 * time.Second):
				r.Violation("c18:client:notifications-lost", fmt.Sprintf("%s: only %d items arrived, nothing more for 10 s", desc, len(got)), "client-btcd", cs, nil)
				return
			}
		}
		for i, h := range got {
			if h != int32(i+1) {
				r.Violation("c18:client:notifications-out-of-order", fmt.Sprintf("%s: item %d is block %d", desc, i, h), "client-btcd", cs, nil)
				return
			}
		}
		// producer done before the stop (so that "queued" is what it says)
		for i := 0; i < 5000 && atomic.LoadInt32(&prodDone) == 0; i++ {
			time.Sleep(2 * time.Millisecond)
		}
		client.Stop()
		gone := false
		for i := 0; i < 2500; i++ {
			if btcdHandlers() <= before {
				gone = true
				break
			}
			time.Sleep(2 * time.Millisecond)
		}
		if !gone {
			r.StopEarly()
			r.Violation("c18:client:worker-alive-after-stop", fmt.Sprintf("%s: the client's queue worker is still present 5 s after Stop() (%d notifications were still queued, nobody is reading)", desc, sc.n-sc.read), "client-btcd", cs, nil)
			return
		}
		r.Hit("btcd-client-scenarios", 1)
		r.Hit("btcd-notifications-received-in-order", len(got))
		if sc.n > sc.read {
			r.Hit("btcd-stops-with-a-backlog", 1)
		}
	}
	r.Case("client-btcd-probe", true)
}
