package main

import (
	"errors"
	"fmt"
	"math/rand"
	"runtime"
	"sync"
	"sync/atomic"
	"time"

	"github.com/btcsuite/btcd/btcutil"
	"github.com/btcsuite/btcd/btcutil/gcs"
	"github.com/btcsuite/btcd/chaincfg"
	"github.com/btcsuite/btcd/chaincfg/chainhash"
	"github.com/btcsuite/btcd/wire"
	"github.com/btcsuite/btcwallet/chain"
	"github.com/lightninglabs/neutrino"
	"github.com/lightninglabs/neutrino/banman"
	"github.com/lightninglabs/neutrino/headerfs"

	"verif/internal/evid"
)

// fakeCS is the chain service under a NeutrinoClient: it only knows headers and
// which one is the best block.
type fakeCS struct {
	mu      sync.Mutex
	headers map[chainhash.Hash]*wire.BlockHeader
	best    headerfs.BlockStamp
}

var errNotImpl = errors.New("fake chain service: not implemented")

func (f *fakeCS) Start() error { return nil }
func (f *fakeCS) Stop() error  { return nil }
func (f *fakeCS) GetBlock(chainhash.Hash, ...neutrino.QueryOption) (*btcutil.Block, error) {
	return nil, errNotImpl
}
func (f *fakeCS) GetBlockHeight(*chainhash.Hash) (int32, error) { return 0, errNotImpl }
func (f *fakeCS) BestBlock() (*headerfs.BlockStamp, error) {
	f.mu.Lock()
	defer f.mu.Unlock()
	b := f.best
	return &b, nil
}
func (f *fakeCS) GetBlockHash(int64) (*chainhash.Hash, error) { return nil, errNotImpl }
func (f *fakeCS) GetBlockHeader(h *chainhash.Hash) (*wire.BlockHeader, error) {
	f.mu.Lock()
	defer f.mu.Unlock()
	if hd, ok := f.headers[*h]; ok {
		return hd, nil
	}
	return nil, errors.New("fake chain service: unknown header")
}
func (f *fakeCS) IsCurrent() bool                   { return true }
func (f *fakeCS) SendTransaction(*wire.MsgTx) error { return nil }
func (f *fakeCS) GetCFilter(chainhash.Hash, wire.FilterType, ...neutrino.QueryOption) (*gcs.Filter, error) {
	return nil, errNotImpl
}
func (f *fakeCS) GetUtxo(...neutrino.RescanOption) (*neutrino.SpendReport, error) {
	return nil, errNotImpl
}
func (f *fakeCS) BanPeer(string, banman.Reason) error                            { return nil }
func (f *fakeCS) IsBanned(string) bool                                           { return false }
func (f *fakeCS) AddPeer(*neutrino.ServerPeer)                                   {}
func (f *fakeCS) AddBytesSent(uint64)                                            {}
func (f *fakeCS) AddBytesReceived(uint64)                                        {}
func (f *fakeCS) NetTotals() (uint64, uint64)                                    { return 0, 0 }
func (f *fakeCS) UpdatePeerHeights(*chainhash.Hash, int32, *neutrino.ServerPeer) {}
func (f *fakeCS) ChainParams() chaincfg.Params                                   { return chaincfg.RegressionNetParams }
func (f *fakeCS) PeerByAddr(string) *neutrino.ServerPeer                         { return nil }

// neutrinoProbe: the notifications a real chain.NeutrinoClient derives from the
// blocks of its rescans (the monitor plays the rescanner through the verif
// hooks) must reach the subscriber complete, once each and in height order,
// across many rescans, with a subscriber that sometimes pauses and a second
// caller polling BlockStamp; and the block source must never end up waiting on
// the client forever (decided from goroutine state).
func neutrinoProbe(r *evid.Run, cs int64) {
	rg := rand.New(rand.NewSource(cs))
	params := &chaincfg.RegressionNetParams
	fcs := &fakeCS{headers: map[chainhash.Hash]*wire.BlockHeader{}}
	gen := params.GenesisBlock.Header
	fcs.headers[gen.BlockHash()] = &gen
	fcs.best = headerfs.BlockStamp{Hash: gen.BlockHash(), Height: 0, Timestamp: gen.Timestamp}
	client := chain.VerifNewNeutrinoClient(params, fcs)
	birthday := time.Unix(1700000000, 0)
	client.SetStartTime(birthday)
	if err := client.Start(); err != nil {
		r.Inconclusive("NeutrinoClient.Start: " + err.Error())
		return
	}
	type rec struct {
		kind   string
		height int32
	}
	var mu sync.Mutex
	var got []rec
	stop := make(chan struct{})
	var wg sync.WaitGroup
	wg.Add(2)
	var pause int32
	go func() { // subscriber
		defer wg.Done()
		n := 0
		for {
			for atomic.LoadInt32(&pause) == 1 {
				select {
				case <-stop:
					return
				case <-time.After(200 * time.Microsecond):
				}
			}
			select {
			case x, ok := <-client.Notifications():
				if !ok {
					return
				}
				mu.Lock()
				switch v := x.(type) {
				case chain.BlockConnected:
					got = append(got, rec{"BlockConnected", v.Height})
				case chain.FilteredBlockConnected:
					got = append(got, rec{"FilteredBlockConnected", v.Block.Height})
				case *chain.RescanFinished:
					got = append(got, rec{"RescanFinished", v.Height})
				case *chain.RescanProgress:
					got = append(got, rec{"RescanProgress", v.Height})
				}
				mu.Unlock()
				n++
				if n%5 == 0 {
					time.Sleep(time.Duration(rg.Intn(300)) * time.Microsecond)
				}
			case <-stop:
				return
			}
		}
	}()
	go func() { // a second user of the client
		defer wg.Done()
		for {
			select {
			case <-stop:
				return
			default:
			}
			client.BlockStamp()
			runtime.Gosched()
		}
	}()
	rounds := r.N(150, 1500)
	var delivered int32
	height := int32(0)
	prev := gen.BlockHash()
	var sentBlocks, sentFiltered, sentProgress []int32
	producer := func() {
		for round := 0; round < rounds; round++ {
			// the chain is nb blocks ahead of where the rescan starts
			start := prev
			nb := 2 + round%3
			var hds []*wire.BlockHeader
			p, ht := prev, height
			for i := 0; i < nb; i++ {
				ht++
				hd := &wire.BlockHeader{Version: 1, PrevBlock: p, Timestamp: birthday.Add(time.Duration(ht) * time.Minute), Bits: 0x207fffff, Nonce: uint32(ht)}
				p = hd.BlockHash()
				hds = append(hds, hd)
			}
			fcs.mu.Lock()
			for _, hd := range hds {
				fcs.headers[hd.BlockHash()] = hd
			}
			fcs.best = headerfs.BlockStamp{Hash: p, Height: ht, Timestamp: hds[nb-1].Timestamp}
			fcs.mu.Unlock()
			if err := client.Rescan(&start, nil, nil); err != nil {
				return
			}
			// every 8th rescan first passes three pre-birthday blocks at heights that
			// are due a progress report (multiples of 10 000) while the subscriber is
			// not reading: three reports queue up behind each other
			if round%8 == 3 {
				atomic.StoreInt32(&pause, 1)
				for j := int32(1); j <= 3; j++ {
					ph := chainhash.Hash{byte(j), byte(round), 0x77}
					client.VerifOnBlockConnected(&ph, 10000*j, birthday.Add(-time.Hour))
					sentProgress = append(sentProgress, 10000*j)
				}
				atomic.StoreInt32(&pause, 0)
			}
			sentProgress = append(sentProgress, height+1) // the report at the birthday boundary
			for _, hd := range hds {
				height++
				h := hd.BlockHash()
				client.VerifOnFilteredBlockConnected(height, hd, nil)
				sentFiltered = append(sentFiltered, height)
				client.VerifOnBlockConnected(&h, height, hd.Timestamp)
				sentBlocks = append(sentBlocks, height)
				prev = h
				atomic.AddInt32(&delivered, 1)
			}
		}
	}
	stack, blocked := evid.BlockedAny([]string{"chain.(*NeutrinoClient)"}, producer)
	if blocked {
		r.StopEarly()
		r.Violation("c18:client:block-source-blocked", fmt.Sprintf("NeutrinoClient: after %d blocks the rescan callbacks no longer return: a goroutine inside the client has been waiting for one of the client's own locks for over a minute\n%s", atomic.LoadInt32(&delivered), stack), "client-neutrino", cs, nil)
		return // goroutines abandoned
	}
	// everything handed over: wait for the subscriber to have it all (count known)
	want := len(sentBlocks) + len(sentFiltered)
	idle := 0
	last := -1
	for idle < 20 {
		mu.Lock()
		n := 0
		for _, g := range got {
			if g.kind == "BlockConnected" || g.kind == "FilteredBlockConnected" {
				n++
			}
		}
		mu.Unlock()
		if n >= want {
			break
		}
		if n == last {
			idle++
		} else {
			idle = 0
		}
		last = n
		time.Sleep(100 * time.Millisecond)
	}
	close(stop)
	client.Stop()
	wg.Wait()
	var gb, gf, gp []int32
	for _, g := range got {
		switch g.kind {
		case "BlockConnected":
			gb = append(gb, g.height)
		case "FilteredBlockConnected":
			gf = append(gf, g.height)
		case "RescanProgress":
			gp = append(gp, g.height)
		}
	}
	r.Hit("neutrino-rescans", rounds)
	r.Hit("neutrino-blocks-delivered", len(sentBlocks))
	if fmt.Sprint(gb) != fmt.Sprint(sentBlocks) {
		r.Violation("c18:client:block-notifications-wrong", fmt.Sprintf("NeutrinoClient: BlockConnected heights received (%d) differ from the blocks delivered (%d): lost, duplicated or reordered", len(gb), len(sentBlocks)), "client-neutrino", cs, map[string]any{"received_first": fmt.Sprint(head(gb, 40)), "delivered_first": fmt.Sprint(head(sentBlocks, 40))})
		return
	}
	if fmt.Sprint(gf) != fmt.Sprint(sentFiltered) {
		r.Violation("c18:client:block-notifications-wrong", fmt.Sprintf("NeutrinoClient: FilteredBlockConnected heights received (%d) differ from the blocks delivered (%d)", len(gf), len(sentFiltered)), "client-neutrino", cs, nil)
		return
	}
	if fmt.Sprint(gp) != fmt.Sprint(sentProgress) {
		r.Violation("c18:client:progress-notifications-wrong", fmt.Sprintf("NeutrinoClient: RescanProgress heights received (%d) differ from the reports handed to the queue (%d): lost, duplicated or reordered", len(gp), len(sentProgress)), "client-neutrino", cs, map[string]any{"received_first": fmt.Sprint(head(gp, 40)), "handed_over_first": fmt.Sprint(head(sentProgress, 40))})
		return
	}
	r.Hit("neutrino-progress-reports-queued-behind-each-other", len(sentProgress)-rounds)
	r.Hit("neutrino-notifications-received-in-order", len(got))
	r.Case("client-neutrino-probe", true)
}

func head(a []int32, n int) []int32 {
	if len(a) > n {
		return a[:n]
	}
	return a
}
