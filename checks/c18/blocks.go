package main

import (
	"fmt"
	"math/rand"
	"strings"
	"sync/atomic"
	"time"

	"net/http/httptest"

	"github.com/btcsuite/btcd/btcutil"
	"github.com/btcsuite/btcd/chaincfg"
	"github.com/btcsuite/btcd/chaincfg/chainhash"
	"github.com/btcsuite/btcd/txscript"
	"github.com/btcsuite/btcd/wire"
	"github.com/btcsuite/btcwallet/chain"

	"verif/internal/evid"
)

// blockProbe: what a real chain.BitcoindClient derives from ONE block -- a
// RelevantTx per matching transaction, then FilteredBlockConnected, then
// BlockConnected, all handed to its notification queue back to back -- must
// reach the subscriber complete and in that order, whatever the subscriber's
// pace.  The block is delivered through the verif hook that calls the client's
// own block filter (the monitor plays the ZMQ / polling connection).
func blockProbe(r *evid.Run, cs int64) {
	rg := rand.New(rand.NewSource(cs))
	fb := &fakeBitcoind{}
	srv := httptest.NewServer(fb)
	defer srv.Close()
	params := &chaincfg.RegressionNetParams
	conn, err := chain.NewBitcoindConn(&chain.BitcoindConfig{
		ChainParams:   params,
		Host:          strings.TrimPrefix(srv.URL, "http://"),
		User:          "u",
		Pass:          "p",
		PollingConfig: &chain.PollingConfig{BlockPollingInterval: time.Hour, TxPollingInterval: time.Hour},
	})
	if err != nil {
		r.Inconclusive("fake bitcoind not accepted by NewBitcoindConn: " + err.Error())
		return
	}
	client := conn.NewBitcoindClient()
	client.SetBirthday(params.GenesisBlock.Header.Timestamp)
	if err := client.Start(); err != nil {
		r.Inconclusive("BitcoindClient.Start over the fake node: " + err.Error())
		return
	}
	defer client.Stop()
	var h20 [20]byte
	rg.Read(h20[:])
	addr, _ := btcutil.NewAddressWitnessPubKeyHash(h20[:], params)
	pk, _ := txscript.PayToAddrScript(addr)
	if err := client.NotifyReceived([]btcutil.Address{addr}); err != nil {
		r.Inconclusive("NotifyReceived: " + err.Error())
		return
	}
	mkBlock := func(prev chainhash.Hash, k int, salt int) *wire.MsgBlock {
		b := wire.NewMsgBlock(&wire.BlockHeader{Version: 1, PrevBlock: prev, Timestamp: time.Unix(1700000000+int64(salt), 0), Bits: 0x207fffff})
		cb := wire.NewMsgTx(1)
		cb.AddTxIn(wire.NewTxIn(&wire.OutPoint{Index: 0xffffffff}, []byte{byte(salt), 1, 2}, nil))
		cb.AddTxOut(wire.NewTxOut(50e8, []byte{0x51}))
		b.AddTransaction(cb)
		for i := 0; i < k; i++ {
			t := wire.NewMsgTx(2)
			var ph chainhash.Hash
			rg.Read(ph[:])
			t.AddTxIn(wire.NewTxIn(&wire.OutPoint{Hash: ph, Index: uint32(i)}, nil, nil))
			t.AddTxOut(wire.NewTxOut(int64(10000+i), pk))
			b.AddTransaction(t)
		}
		return b
	}
	// the filter update is applied asynchronously: wait until the client's filter
	// matches a probe block
	probe := mkBlock(*params.GenesisHash, 1, 999)
	ready := false
	for i := 0; i < 2000 && !ready; i++ {
		if len(client.VerifFilterBlock(probe, 1, false)) == 1 {
			ready = true
		} else {
			time.Sleep(time.Millisecond)
		}
	}
	if !ready {
		r.Inconclusive("the client's transaction filter never picked up the watched address")
		return
	}
	// the probe's transaction was notified (the filter notifies every match): take
	// that notification, and whatever preceded it, off the queue first
	probeHash := probe.Transactions[1].TxHash()
	for drained := false; !drained; {
		select {
		case n := <-client.Notifications():
			if v, ok := n.(chain.RelevantTx); ok && v.TxRecord.Hash == probeHash {
				drained = true
			}
		case <-time.After(10 * time.Second):
			r.Inconclusive("the notification of the probe transaction did not arrive")
			return
		}
	}
	type rec struct {
		kind string
		hash chainhash.Hash
	}
	prev := *params.GenesisHash
	for round, k := range []int{1, 2, 5, 40, 200, 3} {
		pace := round % 3 // 0 eager, 1 a pause after every item, 2 idle until the producer is done
		blk := mkBlock(prev, k, round)
		prev = blk.BlockHash()
		height := int32(round + 1)
		var want []rec
		for _, t := range blk.Transactions[1:] {
			want = append(want, rec{"RelevantTx", t.TxHash()})
		}
		want = append(want, rec{"FilteredBlockConnected", prev}, rec{"BlockConnected", prev})
		var prodDone int32
		go func() {
			client.VerifFilterBlock(blk, height, true)
			atomic.StoreInt32(&prodDone, 1)
		}()
		var got []rec
		idle := 0
		for len(got) < len(want) && idle < 3 {
			if pace == 2 && atomic.LoadInt32(&prodDone) == 0 && len(got) == 0 {
				// the queue is unbounded: the producer must finish without a reader
				stuck := 0
				for atomic.LoadInt32(&prodDone) == 0 && stuck < 3 {
					time.Sleep(50 * time.Millisecond)
					if s, _ := stuckWitness("none"); s || workerParked() {
						stuck++
					} else {
						stuck = 0
					}
					if atomic.LoadInt32(&prodDone) == 1 {
						break
					}
				}
			}
			select {
			case n := <-client.Notifications():
				idle = 0
				switch v := n.(type) {
				case chain.RelevantTx:
					got = append(got, rec{"RelevantTx", v.TxRecord.Hash})
				case chain.FilteredBlockConnected:
					got = append(got, rec{"FilteredBlockConnected", v.Block.Hash})
					if len(v.RelevantTxs) != k {
						r.Violation("c18:client:block-notification-incomplete", fmt.Sprintf("block with %d matching transactions: FilteredBlockConnected lists %d", k, len(v.RelevantTxs)), "client-blocks", cs, nil)
						return
					}
				case chain.BlockConnected:
					got = append(got, rec{"BlockConnected", v.Hash})
				case chain.ClientConnected:
				default:
					got = append(got, rec{fmt.Sprintf("%T", n), chainhash.Hash{}})
				}
				if pace == 1 && len(got)%3 == 0 {
					time.Sleep(200 * time.Microsecond)
				}
			case <-time.After(300 * time.Millisecond):
				// nothing arrives: lost only if the producer has handed everything over
				// and the queue worker is parked (state, three ticks in a row)
				if atomic.LoadInt32(&prodDone) == 1 && workerParked() {
					idle++
				} else {
					idle = 0
				}
			}
		}
		desc := fmt.Sprintf("BitcoindClient, block %d with %d matching transactions, subscriber pace %d", height, k, pace)
		r.Hit("client-blocks-delivered", 1)
		r.Hit("client-block-notifications-expected", len(want))
		if len(got) != len(want) {
			lost := len(want) - len(got)
			r.Violation("c18:client:notifications-lost", fmt.Sprintf("%s: %d of %d notifications never reached the subscriber although the client had handed all of them to its queue and the queue worker was idle", desc, lost, len(want)), "client-blocks", cs, map[string]any{"received": len(got)})
			return
		}
		for i := range want {
			if got[i] != want[i] {
				r.Violation("c18:client:notifications-out-of-order", fmt.Sprintf("%s: notification %d is %s %v, expected %s %v", desc, i, got[i].kind, got[i].hash, want[i].kind, want[i].hash), "client-blocks", cs, nil)
				return
			}
		}
		r.Hit("client-block-notifications-received-in-order", len(got))
	}
	r.Case("client-block-probe", true)
}
