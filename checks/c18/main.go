// C18 — chain notifications are delivered in order, none lost or duplicated.
//
// Monitor: every item carries (producer, seq); send-call / send-return /
// receive events are stamped from one atomic counter; an offline checker
// decides exactly-once, per-producer FIFO, real-time order across producers
// and "received after sent". Producer progress with an idle consumer and
// worker exit after Stop are decided from goroutine STATE (runtime.Stack),
// not from elapsed time. Built with -race; race reports on the queue are
// violations (the property quantifies over schedules).
package main

import (
	"fmt"
	"math/rand"
	"os"
	"path/filepath"
	"runtime"
	"sort"
	"strings"
	"sync"
	"sync/atomic"
	"time"

	"github.com/btcsuite/btcwallet/chain"

	"verif/internal/evid"
)

const P = "C18"

type item struct{ p, seq int }
type sev struct{ call, ret int64 }

func workerAlive() int {
	buf := make([]byte, 1<<20)
	n := runtime.Stack(buf, true)
	return strings.Count(string(buf[:n]), "ConcurrentQueue).Start.func1")
}

// workerParked: the queue worker exists and is parked in its select (it has
// nothing it could hand to a waiting consumer).
func workerParked() bool {
	buf := make([]byte, 1<<20)
	n := runtime.Stack(buf, true)
	for _, g := range strings.Split(string(buf[:n]), "\n\n") {
		if strings.Contains(g, "ConcurrentQueue).Start.func1") {
			return strings.Contains(g, "[select") || strings.Contains(g, "[chan receive")
		}
	}
	return false
}

// stuckWitness: returns a goroutine dump if a producer is parked sending on
// ChanIn while the queue worker is parked too (stable wait-for state).
func stuckWitness(tag string) (bool, string) {
	buf := make([]byte, 1<<20)
	n := runtime.Stack(buf, true)
	s := string(buf[:n])
	prodParked, workerParked := false, false
	if !strings.Contains(s, "ConcurrentQueue).Start.func1") {
		workerParked = true // no worker at all: nothing will ever move a pending item
	}
	for _, g := range strings.Split(s, "\n\n") {
		if (strings.Contains(g, "[chan send") || strings.Contains(g, "[select")) && strings.Contains(g, "main."+tag+"(") {
			prodParked = true
		}
		if strings.Contains(g, "ConcurrentQueue).Start.func1") && (strings.Contains(g, "[chan send") || strings.Contains(g, "[select") || strings.Contains(g, "[chan receive")) {
			workerParked = true
		}
	}
	return prodParked && workerParked, s
}

type caseCfg struct {
	buf, nprod, n, mode, procs int
	stopAt                     int // -1: never stop early
}

func producer(q *chain.ConcurrentQueue, p, n int, clock *int64, evs []sev, done *int64, quit chan struct{}) {
	for i := 0; i < n; i++ {
		c := atomic.AddInt64(clock, 1)
		select {
		case q.ChanIn() <- item{p, i}:
		case <-quit:
			return
		}
		evs[i] = sev{c, atomic.AddInt64(clock, 1)}
		atomic.AddInt64(done, 1)
	}
}

func runCase(r *evid.Run, cs int64, c caseCfg) {
	rg := rand.New(rand.NewSource(cs))
	old := runtime.GOMAXPROCS(c.procs)
	defer runtime.GOMAXPROCS(old)
	before := workerAlive()
	q := chain.NewConcurrentQueue(c.buf)
	q.Start()
	var clock, done int64
	sendEv := make([][]sev, c.nprod)
	quit := make(chan struct{})
	var wg sync.WaitGroup
	for p := 0; p < c.nprod; p++ {
		sendEv[p] = make([]sev, c.n)
		wg.Add(1)
		go func(p int) {
			defer wg.Done()
			producer(q, p, c.n, &clock, sendEv[p], &done, quit)
		}(p)
	}
	total := c.n * c.nprod
	prodDone := make(chan struct{})
	go func() { wg.Wait(); close(prodDone) }()

	// mode 0: the consumer reads NOTHING until every producer has finished
	// all its sends: a correct queue never blocks a producer.
	if c.mode == 0 {
		last, same, rounds := int64(-1), 0, 0
	wait:
		for {
			select {
			case <-prodDone:
				break wait
			case <-time.After(200 * time.Millisecond):
				cur := atomic.LoadInt64(&done)
				if cur == last {
					same++
				} else {
					same, last = 0, cur
				}
				if same >= 15 { // no send completed for 3 s: inspect STATE
					if stuck, dump := stuckWitness("producer"); stuck {
						time.Sleep(time.Second)
						if stuck2, _ := stuckWitness("producer"); stuck2 && atomic.LoadInt64(&done) == cur {
							r.Violation("c18:producer-blocked", fmt.Sprintf("with the consumer idle, producers are parked in chan send on ChanIn and the worker is parked too after %d of %d sends (buffer %d): a slow consumer blocks the producer", cur, total, c.buf), "queue", cs, map[string]any{"case": fmt.Sprintf("%+v", c), "goroutines": strings.Split(dump, "\n")})
							close(quit)
							q.Stop()
							return
						}
					}
					same = 0
					rounds++
					if rounds > 20 {
						r.Inconclusive("producers made no progress for 60 s but no stable blocked state was recognised")
						close(quit)
						q.Stop()
						return
					}
				}
			}
		}
		r.Hit("producer-finished-with-idle-consumer", 1)
	}

	var got []item
	var recvAt []int64
	lostEarly := false
	_ = lostEarly
	want := total
	stopped := false
	for len(got) < want {
		if c.stopAt >= 0 && len(got) == c.stopAt {
			q.Stop()
			stopped = true
			break
		}
		// Receive; if nothing arrives although every producer has returned from all
		// its sends and the worker is parked (nothing in flight), the missing items
		// are lost: stop waiting and let the offline checker report it.  Decided from
		// state (sends completed + worker parked), observed on three ticks in a row.
		var it item
		arrived := false
		for idle := 0; !arrived && idle < 3; {
			select {
			case v := <-q.ChanOut():
				it, arrived = v.(item), true
			case <-time.After(300 * time.Millisecond):
				select {
				case <-prodDone:
					if _, _ = stuckWitness("none"); workerParked() {
						idle++
					} else {
						idle = 0
					}
				default:
					idle = 0
				}
			}
		}
		if !arrived {
			lostEarly = true
			break
		}
		got = append(got, it)
		recvAt = append(recvAt, atomic.AddInt64(&clock, 1))
		switch c.mode {
		case 2:
			if rg.Intn(20) == 0 {
				runtime.Gosched()
			}
		case 3:
			if len(got)%7 == 0 {
				time.Sleep(time.Duration(rg.Intn(200)) * time.Microsecond)
			}
		case 4:
			// bursty consumer: lets the overflow list build up, then drains
			if len(got)%(c.buf+3) == 0 {
				time.Sleep(time.Duration(50+rg.Intn(300)) * time.Microsecond)
			}
		}
	}
	if stopped {
		close(quit)
	}
	<-prodDone
	if !stopped {
		q.Stop()
	}
	// worker exit, decided from state: the Start goroutine must disappear
	gone := false
	for i := 0; i < 1000; i++ {
		if workerAlive() <= before {
			gone = true
			break
		}
		time.Sleep(2 * time.Millisecond)
		if i == 999 {
			_, dump := stuckWitness("none")
			r.StopEarly()
			r.Violation("c18:worker-alive-after-stop", "the queue worker goroutine is still present after Stop()", "queue", cs, map[string]any{"case": fmt.Sprintf("%+v", c), "goroutines": strings.Split(dump, "\n")})
			return
		}
	}
	if gone {
		r.Hit("worker-exits-observed", 1)
	}
	r.Hit("items-received", len(got))
	r.Hit("items-sent", int(atomic.LoadInt64(&done)))

	// ---- offline checker over the recorded trace ----
	next := make([]int, c.nprod)
	pos := map[item]int{}
	for i, it := range got {
		if _, dup := pos[it]; dup {
			r.Violation("c18:duplicate", fmt.Sprintf("item %+v delivered twice (buffer %d)", it, c.buf), "queue", cs, map[string]any{"case": fmt.Sprintf("%+v", c), "received_prefix": fmt.Sprint(got[:min(i+1, 60)])})
			return
		}
		if it.seq != next[it.p] {
			key := "c18:out-of-order"
			if it.seq > next[it.p] {
				key = "c18:out-of-order-or-lost"
			}
			r.Violation(key, fmt.Sprintf("producer %d: expected item %d next, received %d (buffer %d, %d producers, mode %d)", it.p, next[it.p], it.seq, c.buf, c.nprod, c.mode), "queue", cs, map[string]any{"case": fmt.Sprintf("%+v", c), "received_prefix": fmt.Sprint(got[:min(i+1, 80)])})
			return
		}
		next[it.p]++
		pos[it] = i
	}
	if !stopped && len(got) != total {
		r.Violation("c18:lost", fmt.Sprintf("%d of %d items received", len(got), total), "queue", cs, nil)
		return
	}
	// received after its send was called
	for i, it := range got {
		if recvAt[i] < sendEv[it.p][it.seq].call {
			r.Violation("c18:received-before-sent", fmt.Sprintf("item %+v", it), "queue", cs, nil)
			return
		}
	}
	// real-time order: send a returned before send b was called => a before b
	type se struct {
		it item
		e  sev
	}
	var all []se
	for p := range sendEv {
		for i, e := range sendEv[p] {
			if e.ret == 0 {
				continue
			}
			if _, ok := pos[item{p, i}]; !ok && !stopped {
				continue
			}
			all = append(all, se{item{p, i}, e})
		}
	}
	byRet := append([]se(nil), all...)
	sort.Slice(byRet, func(i, j int) bool { return byRet[i].e.ret < byRet[j].e.ret })
	byCall := append([]se(nil), all...)
	sort.Slice(byCall, func(i, j int) bool { return byCall[i].e.call < byCall[j].e.call })
	maxPos, k := -1, 0
	var maxIt item
	for _, b := range byCall {
		for k < len(byRet) && byRet[k].e.ret < b.e.call {
			if p, ok := pos[byRet[k].it]; ok && p > maxPos {
				maxPos, maxIt = p, byRet[k].it
			}
			k++
		}
		if pb, ok := pos[b.it]; ok && maxPos > pb {
			r.Violation("c18:real-time-order", fmt.Sprintf("send of %+v returned before send of %+v was called, yet %+v was received first", maxIt, b.it, b.it), "queue", cs, map[string]any{"case": fmt.Sprintf("%+v", c)})
			return
		}
	}
	r.Hit("traces-checked", 1)
	r.Hit(fmt.Sprintf("mode%d", c.mode), 1)
	r.Hit(fmt.Sprintf("buffer%d", c.buf), 1)
	if c.n > c.buf {
		r.Hit("bursts-exceeding-buffer", 1)
	}
	// interleaving signature: how sends and receives interleaved (coarse)
	r.Distinct("interleavings", fmt.Sprint(c, recvAt[:min(len(recvAt), 40)]))
	r.Case(fmt.Sprintf("%+v/%d", c, cs), total > c.buf)
	if r.WantSample() && total < 30 {
		r.Sample(map[string]any{"case": fmt.Sprintf("%+v", c), "received": fmt.Sprint(got), "receive_stamps": recvAt})
	}
}

func min(a, b int) int {
	if a < b {
		return a
	}
	return b
}

func raceReports() (int, string) {
	root := evid.Root()
	files, _ := filepath.Glob(filepath.Join(root, ".work", P, "race*"))
	n := 0
	first := ""
	for _, f := range files {
		b, err := os.ReadFile(f)
		if err != nil {
			continue
		}
		s := string(b)
		for _, blk := range strings.Split(s, "==================") {
			if strings.Contains(blk, "WARNING: DATA RACE") && strings.Contains(blk, "btcwallet/chain") {
				n++
				if first == "" {
					first = blk
				}
			}
		}
	}
	return n, first
}

func main() {
	r := evid.New(P, "exploration")
	r.Rule("grid of buffer sizes {0,1,2,10,100} x producers {1,2,4} x burst lengths (1..5000, mostly far above the buffer) x consumer pacing (0: idle until all producers finished; 1: eager; 2: random yields; 3: periodic sleeps; 4: bursty) x GOMAXPROCS {1,2,16} x stop point (never / random mid-stream), each executed on the real chain.ConcurrentQueue under the race detector. Recorded trace = (producer,seq) items with send-call/send-return/receive stamps from one atomic clock; offline checker: exactly-once, per-producer FIFO, real-time order across producers, received-after-sent. Producer progress with an idle consumer and worker exit after Stop are decided from goroutine state. Before the queue cases a real chain.BitcoindClient over a fake JSON-RPC bitcoind is started with 0, 1 and 2 failing Start calls (node warming up) followed by retries: its queue must have exactly one worker, ClientConnected must arrive exactly once, Stop must end the worker. Non-trivial = burst larger than the buffer; distinct = distinct (case, seed); distinct interleavings = distinct receive-stamp prefixes.")
	r.Trusted("Go race detector; runtime.Stack goroutine states")
	r.Assume("a single consumer (as in the wallet)", "schedules are sampled, not enumerated")
	bufs := []int{0, 1, 2, 10, 100}
	procs := []int{1, 2, 16}
	n := r.N(240, 6000)
	// the queue inside a real embedder (sequential, before the queue cases: the
	// worker count is a process-wide goroutine census)
	r.Parallel("client", 1, 1, func(i int, cs int64) { clientProbe(r, cs) })
	r.Require("client-start-sequences", 3)
	r.Parallel("client-blocks", r.N(2, 20), 1, func(i int, cs int64) { blockProbe(r, cs) })
	r.Require("client-blocks-delivered", 6)
	r.Parallel("client-neutrino", 1, 1, func(i int, cs int64) { neutrinoProbe(r, cs) })
	r.Require("neutrino-blocks-delivered", 300)
	r.Parallel("client-btcd", r.N(1, 6), 1, func(i int, cs int64) { btcdProbe(r, cs) })
	r.Require("btcd-client-scenarios", 7)
	r.Require("btcd-stops-with-a-backlog", 3)
	r.Parallel("queue", n, 1, func(i int, cs int64) {
		rg := rand.New(rand.NewSource(cs))
		c := caseCfg{buf: bufs[rg.Intn(len(bufs))], nprod: []int{1, 1, 2, 4}[rg.Intn(4)], mode: rg.Intn(5), procs: procs[rg.Intn(3)], stopAt: -1}
		if i >= 0 && i < 25 {
			c.buf, c.mode = bufs[i%5], i/5 // every buffer x pacing combination at least once
		}
		c.n = 1 + rg.Intn(400)
		switch rg.Intn(6) {
		case 0:
			c.n = 1 + rg.Intn(5)
		case 1:
			c.n = 1000 + rg.Intn(4000)
		case 2:
			c.n = c.buf + 1 + rg.Intn(3)
		}
		if r.Quick() && c.n > 1500 {
			c.n = 1500
		}
		if rg.Intn(5) == 0 && c.mode != 0 {
			c.stopAt = rg.Intn(c.n*c.nprod + 1)
		}
		runCase(r, cs, c)
	})
	if nr, first := raceReports(); nr > 0 {
		r.Violation("c18:data-race", fmt.Sprintf("%d race report(s) with chain package frames", nr), "queue", 0, map[string]any{"first_report": strings.Split(first, "\n")})
	}
	r.Require("traces-checked", 150)
	r.Require("producer-finished-with-idle-consumer", 20)
	r.Require("worker-exits-observed", 150)
	r.Require("bursts-exceeding-buffer", 100)
	r.Require("buffer0", 10)
	os.Exit(r.Finish())
}
