// C13 — transaction history shows each known transaction once, at its current status.
package main

import (
	"os"

	"verif/internal/evid"
	"verif/internal/ledger"
)

const P = "C13"

func main() {
	r := evid.New(P, "exploration")
	r.Rule("C01's history generator; after EVERY event, for EVERY transaction of the universe (known or forgotten): TxDetails (nil iff unknown; block; credits with amount/change/spent flag = 'some known tx spends it'; debits = exactly the inputs spending wallet credits, with amounts), UniqueTxDetails for the right block / a wrong block hash / nil, PreviousPkScripts; RangeTransactions over fixed and random [begin,end] pairs forwards and backwards incl. -1 (each known tx in range exactly once, none outside, block order, per-entry details). Non-trivial = history with a disconnect or conflict removal; distinct = distinct event sequences.")
	r.Trusted("btcd wire/chainhash", "walletdb/bdb (C11)")
	r.Assume("chain-consistent histories as in C01", "credits are marked right after the insert that created the record, as wallet.addRelevantTx does")
	n := r.N(400, 3500)
	cfg := ledger.Config{MinSteps: 20, MaxSteps: r.N(70, 180), Details: true, Reopen: true}
	dir := r.TempDir("c13")
	defer os.RemoveAll(dir)
	r.Parallel("history", n, evid.Workers(), func(i int, cs int64) {
		c := cfg
		c.ReorgHeavy = cs%2 == 0
		res := ledger.RunHistory(c, cs, dir)
		ledger.Record(r, res, "history", cs, res.Stats["ev:disconnect"] > 0 || res.Stats["conflict-removed-txs"] > 0)
	})
	r.Require("detail-lookups", 20000)
	r.Require("range-queries", 5000)
	r.Require("ev:disconnect", 50)
	r.Require("conflict-removed-txs", 10)
	os.Exit(r.Finish())
}
