#!/bin/bash
# Applies the reverse of every fix: commit (seeded/revert-*/fix.diff) and runs the check(s) that should notice.
cd /verif
declare -A M=( [F1]="c05" [F2]="c03" [F3F9]="c05" [F4]="c20" [F5]="c07" [F6]="c07" [F7]="c01 c02" [F8]="c15" [F10]="c10" [F11]="c03 c08" [F12]="c03 c08" [F13]="c15" [F14]="c16" [F15]="c16" )
for f in "${!M[@]}"; do
  REVERSE=1 scripts/try_patch.sh /verif/seeded/revert-$f/fix.diff ${M[$f]} 2>&1 | grep -E "^===|VIOLATION|exit=" | sed -E 's/replay=[^ ]+ //' | cut -c1-230
done
