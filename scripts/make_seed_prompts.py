#!/usr/bin/env python3
"""make_seed_prompts.py <round dir, e.g. /tmp/mut3>
Creates one scratch git worktree of /repo HEAD per property under <dir>/Cxx and writes the prompt handed to the
independent sub-agent that seeds a defect there.  The prompt contains ONLY the property text (title, statement,
quantifier), repository layout / sandbox notes and the list of ideas already used in earlier rounds -- nothing from /verif."""
import json, os, subprocess, sys
root = sys.argv[1]
os.makedirs(root + '/prompts', exist_ok=True)
base = """You are helping evaluate a verification framework by writing a *seeded defect* for the open-source project btcsuite/btcwallet (a Bitcoin HD wallet library/daemon in Go).

Your scratch copy of the repository (a git worktree, yours alone) is at: {wt}
Work ONLY inside that directory. Never read or touch /repo or /verif or any other directory under {root}.

## The property your change must break

Title: {title}

Statement: {statement}

Quantifier (what it must hold for): {quant}

## What to produce

A *realistic* source change to the btcwallet code in your worktree (the kind of slip a maintainer could plausibly make in a refactor or 'optimisation': a dropped or inverted condition, an off-by-one, a lock released too early or not taken on one path, an error return swallowed, an update moved before/after a write, a cache not invalidated on one path, two sites that each look fine alone, ...) such that:

1. the repository still COMPILES (`go build ./...` in the root module and in any sub-module you touch, and `go vet` finds nothing new that breaks the build of tests);
2. the repository's EXISTING test suite still PASSES with your change (run at least the tests of every package you touched and the packages that depend on it most directly -- see commands below -- and confirm they pass);
3. the property above is VIOLATED by the changed code, but only under something *specific*: a particular interleaving, a fault/crash at a particular point, a multi-step sequence of operations, an unusual input or boundary value, or two cooperating sites. It must NOT be a change that ordinary use or the most basic smoke test would expose at once;
4. you provide a DEMONSTRATION: a new Go test file (or small program) that FAILS with your change applied and PASSES on the original code. Put the demonstration test next to the code it exercises (e.g. `wtxmgr/seeded_demo_test.go`), so it can use the package's test helpers.

Keep the change small (typically 1-15 changed lines, in non-test files only). Do not modify existing tests. Do not change exported API signatures. Do not touch files named verif_hooks.go.

## Layout notes

The repo has a root Go module plus sub-modules, each with its own go.mod: wtxmgr/, walletdb/, wallet/txauthor/, wallet/txrules/, wallet/txsizes/. IMPORTANT: the root module's packages (wallet/, waddrmgr/, chain/, ...) are compiled against the *published* versions of those sub-modules from the module cache, NOT against the directories in your worktree. So if your change is in wtxmgr/ (or another sub-module), write the demonstration test inside that sub-module (e.g. package wtxmgr), where your change is visible, and run that sub-module's tests with `cd {wt}/wtxmgr && go test ./...`.

## Environment (offline sandbox)

Every shell command needs: `export GOFLAGS=-mod=mod GOPROXY=off GOSUMDB=off GOTOOLCHAIN=local`
There is no network; only modules already in the Go module cache can be used (everything the repo needs is there, including github.com/stretchr/testify).
Useful commands (run from your worktree):
  go build ./...
  go test -count=1 ./waddrmgr/ ./wallet/ ./chain/ ./snacl/ ./walletdb/...      (root module; wallet tests take ~35 s)
  (cd wtxmgr && go test -count=1 ./...)   (cd walletdb && go test -count=1 ./...)   (cd wallet/txauthor && go test -count=1 ./...)  (cd wallet/txsizes && go test -count=1 ./...)
Note: chain.TestBitcoindEvents fails in this sandbox even on the original code (needs a bitcoind binary) -- ignore it.

## Deliverables (all inside {wt}/_seed/)

- `_seed/patch.diff` : output of `git diff` for the NON-test source change only (must apply with `git apply` to a clean checkout of the same commit).
- `_seed/demo_test.go.txt` : a copy of your demonstration test file, and `_seed/demo_path.txt` containing the repo-relative path where it must be placed to run (e.g. `wtxmgr/seeded_demo_test.go`) and the exact `go test -run ...` command (with the directory to run it in).
- `_seed/README.md` : which property it breaks, WHY the change violates it, what specific condition is needed for the violation to manifest, which existing tests you ran (and that they passed), and the output of the demo test failing WITH the change and passing WITHOUT it (use `git diff > f && git apply -R f` (NOT `git stash`: the stash is shared by all worktrees of the repository) to check the 'without' case; leave the worktree with the change applied at the end).

Before finishing, verify yourself: (a) `git apply --check` of patch.diff on a clean state works, (b) existing tests of touched packages pass with the change, (c) demo fails with the change and passes without it. Report briefly what you did. Think carefully about subtlety: the more specific the trigger, the better, as long as it is a genuine violation of the stated property.
{extra}
"""
extras = {
 'C09': "Hint on scope: the violation should be reachable through the wallet-level API (wallet.Wallet NewAddress/NewChangeAddress/CurrentAddress/CreateSimpleTx etc.) under concurrency; a demo may use many goroutines and repetitions to make the interleaving likely.",
 'C18': "The code is chain/queue.go (ConcurrentQueue). A demo may need many repetitions or particular pacing of producer/consumer.",
 'C10': "A demo may wrap the walletdb database (walletdb.DB and its tx/bucket interfaces) to inject a failure on the k-th Put/Delete/CreateBucket call, or otherwise provoke a write error.",
 'C12': "The transaction store uses an internal clock (field `clock` in wtxmgr.Store, of type github.com/lightningnetwork/lnd/clock.Clock); a demo test inside package wtxmgr can replace it with clock.NewTestClock to control time.",
}
prev = {
 'C01': ['deleteRawUnminedInput wiping all spenders of an outpoint on a repeated abandon', 'removeConflict/removeDoubleSpends not following descendants that spend a non-credited output of the removed transaction', 'addCredit treating an already-spent confirmed credit as unknown when its confirmation is delivered again', 'Store.Balance subtracting a leased output twice when an unconfirmed transaction also spends it', 'unspendRawCredit leaving the on-disk spent bit set (Balance with minconf >= 2 over-reports after a reorged spend is dropped)', "rollback looking up the debit of a detached spender with the transaction's position in its block instead of the input index"],
 'C02': ['removeConflict skipping descendants that spend non-credited outputs', 'Rollback restoring only some of the spent credits when several were mined in different surviving blocks', 'insertMemPoolTx not indexing inputs that spend transactions unknown to the store (conflict on a foreign outpoint)', "rollback / updateMinedBalance copying raw credit bytes so that the mined 'spent' flag survives disconnect and reconnect", 'deleteRawUnminedInput writing back the unfiltered spender list', 'Rollback returning early when the rollback height itself has no block record'],
 'C03': ['deriveAccountKey using Derive instead of DeriveNonStandard (legacy rule) for account 0', 'imported xpub account losing its address-schema override after restart / cache eviction', 'extendAddresses deciding watch-only from acctKeyPriv == nil (addresses extended while locked never get their key after unlock)', 'importPublicKey keying taproot imports by the untweaked internal key', 'ImportAccountDryRun invalidating the account cache before, not after, deriving its preview addresses', 'DeriveFromKeyPathCache returning a pointer into its cache entry'],
 'C04': ['ConvertToWatchingOnly setting the in-memory watch-only flag before the writes (fault + retry)', 'wallet-level InitAccounts(watchOnly) skipping conversion when the requested account already exists', 'ChangePassphrase zeroing the live private crypto key through an aliasing Bytes() (later imports sealed under an all-zero key)', 'ImportPrivateKey no longer refusing while locked (key sealed under the zeroed crypto key)', '32-byte address ids used un-hashed as bucket keys', 'non-secret witness / taproot scripts stored without encryption'],
 'C05': ['ChangePassphrase hashing the new passphrase with the old salt (Unlock while already unlocked fails)', 'lock() zeroing only the first cached derived key of a scope', 'scriptAddress.Script() skipping the lock check when its clear text is cached (objects from ForEachAccountAddress are never wiped)', 'selectCryptoKey gating only CKTPrivate (CKTScript usable while locked)', 'extendAddresses queueing watch-only-account addresses for key derivation while locked (Unlock then panics)', 'ConvertToWatchingOnly locking only an already locked manager'],
 'C06': ['makeInputSource no longer consuming coins between calls (duplicate inputs on re-selection)', 'rebroadcast answered "already in mempool" making the wallet forget the transaction so its inputs get selected again', 'findEligibleOutputs overwriting the minconf target with the coinbase maturity instead of taking the larger', 'disconnectBlock off-by-one ignoring the disconnect of the current tip block', 'removeConflict deleting the whole unmined-inputs record of an outpoint instead of its own hash', 'insertMemPoolTx releasing the lease of every output an unconfirmed transaction spends'],
 'C07': ['NewUnsignedTransaction input-type counters not reset per selection round', 'change output appended into spare capacity of the caller\'s outputs slice (aliasing)', 'EstimateVirtualSize not counting taproot inputs when deciding whether the transaction has witness data', 'wallet input source restarting at coin 0 on its second call (same coin selected twice)', 'FeeForSerializeSize dividing the rate by 1000 before multiplying by the size', 'imported-account change taken from the taproot scope while sized for the requested scope'],
 'C08': ['RenameAccount swapping next external/internal index arguments when rewriting the account row', 'SetSyncedTo updating the in-memory tip although the database write was refused', 'nextAddresses commit callback advancing the cached index relatively (two requests in one database transaction)', 'ImportAccountDryRun invalidating its cached account only when the dry run succeeds', "failed recovery batch invalidating only default scopes' account caches", 'extendAddresses caching an extended internal address as the last EXTERNAL address'],
 'C09': ['FundPsbt (explicit inputs path) no longer taking newAddrMtx', 'txToOutputs releasing newAddrMtx before the change address commit/OnCommit window closes', "loadAccountInfo loading a watch-only account's internal counter from the external one", "RenameAccount rewriting the account row from cached counters (race with an issuer's commit callback)", 'newAddress dropping the cached account between issuance and the commit callback (concurrent readers re-cache the old counter)', 'Manager.Unlock dropping and reloading cached accounts from its read snapshot while issuers are in flight'],
 'C10': ['err shadowing in insertMinedTx so a failed block-record rewrite is swallowed', 'ChangePassphrase ignoring the error of its last write', 'NewScopedKeyManager registering the scope in memory before its last write', 'MarkUsed keeping the scope mutex on its failed-write return path', "rollback treating a failed unspend write as 'credit already gone'", 'extendAddresses advancing the in-memory index per address inside the write loop'],
 'C11': ['db.Update committing when the closure panics', 'bucket.Put dropping writes of empty values to absent keys', 'db.Batch caching the first result of the function (lost when bbolt re-runs it after a sibling failed)', 'NestedReadBucket returning a typed-nil bucket for a missing name', 'bucket.ForEach stopping at the first nested bucket', 'top-level bucket look-ups memoised per transaction and never invalidated'],
 'C12': ['Balance double-subtracting a leased output that is below minconf', 'a confirmed spend not removing the lease when a foreign input comes first', 'isKnownOutput accepting any outpoint whose hash is an unmined transaction (lease of a non-credit output)', 'DeleteExpiredLockedOutputs collecting pointers to a reused loop variable (sweep deletes the wrong lease)', 'lease expiry rounded instead of floored when persisted', "LockOutput treating the all-zero LockID as 'not leased'"],
 'C13': ['unminedTxDetails Spent flag sticking across credits of the same unmined tx', 'reverse RangeTransactions starting above the requested height when that height has no block record', 'removeConflict leaving the unmined-input entry when the previous output is not a live credit at that moment (stale spent flag)', "rollback writing the unmined credit's change flag from the mined-spent bit", 'updateMinedBalance breaking out of its input loop at the first non-wallet input', 'insertMemPoolTx writing the unmined-input marker only when the previous output is currently a wallet credit'],
 'C14': ['makeGraph counting in-degree per input but adding the out-edge once', 'dependency sort skipped when no unmined credit is spent', 'resendUnminedTxs break instead of continue on a rejected transaction', 'NewTxRecordFromMsgTx using the witness hash as the record hash', 'rollback keying the unmined-input marker by input position instead of prevout index', "DependencySort's ready queue sharing a backing array between generations"],
 'C15': ['SetSyncedTo updating the cached tip before the database write', 'start-up reorg check stopping one block short of the fork point', "disconnectBlock deciding 'known block' from a stored hash only (stale hashes above the tip)", 'rollback never deleting the mined record of a detached coinbase', 'connectBlock refusing every block that is not tip+1 (reorg during the start-up rescan)', 'SetChainSynced(true) moved from the notification handler into the rescan-progress goroutine'],
 'C16': ['watched outpoints of a recovery batch only recorded when more blocks remain in the batch', 'Resurrect seeding the internal branch with the external key count', 'recovery committing SetSyncedTo of a batch before scanning it (failed scan + retry skips the batch)', 'extendAddresses always using the external address type (BIP49Plus change addresses persisted with the wrong type)', 'newFilterBlocksRequest only watching indices within W of the frontier', 'BlockFilterer.FilterTx short-circuiting the output scan when an input already matched'],
 'C17': ['Decrypt length guard off by one (empty plaintext)', 'scrypt error swallowed by a shadowed err in deriveKey', 'ChangePassphrase (unlocked) caching the hash of the OLD passphrase', 'Unlock hashing the passphrase in a fixed 128-byte buffer (long passphrases truncated in the already-unlocked shortcut)', 'nonce built from a process prefix plus a counter read back non-atomically', 'Manager.Encrypt/Decrypt releasing the manager lock before using the selected key'],
 'C18': ['queue worker handing a new item directly to chanOut although the overflow list is non-empty', 'Stop() losing the stop signal when the worker is not parked', 'worker busy-spinning on a full out channel while draining the overflow list (ignores input and quit)', 'BitcoindClient.Start resetting its started flag on a backend error (second queue worker on retry)', 'BitcoindClient.Stop returning before stopping the queue when the client never subscribed to blocks', 'overflow head removed when the select is entered instead of when the send case fires'],
 'C19': ['GetLatestVersion no longer sorting + VersionsToApply comparator reading the wrong slice', 'a failed migration forgotten when a later one succeeds', 'Upgrade returning at the first service that is already up to date', 'wtxmgr MigrationManager.Versions filtering the package-level table in place', 'OpenWithRetry upgrading the transaction store in its own database transaction first', 'wtxmgr.Open accepting any version for which no migration is pending (newer stores accepted)'],
 'C20': ['resendUnminedTxs breaking out of the loop on the first rejection', 'rejected broadcast keeping descendants that spend a non-credited output', 'requireChainClient guard moved behind the database update in reliablyPublishTransaction', 'makeGraph de-duplicating out-edges but counting every input (children with two inputs from one parent never released)', "new early return for 'mempool min fee not met' that skips the rejection clean-up", 'deleteRawUnminedInput deleting a single recorded spender without comparing it with the target hash'],
}
for l in open('/verif/properties.jsonl'):
    p = json.loads(l); i = p['id']
    wt = f'{root}/{i}'
    if not os.path.isdir(wt):
        subprocess.run(['git', '-C', '/repo', 'worktree', 'add', '-q', '--detach', wt, 'HEAD'], check=True)
    t = base.format(wt=wt, root=root, title=p['title'], statement=p['statement'], quant=p['quantifier']['text'], extra=extras.get(i, ''))
    t += "\n\nNote: other reviewers already produced seeded defects for this property based on these ideas:\n" + ''.join(f'  - "{x}"\n' for x in prev[i])
    t += "Do NOT reuse those ideas or those code sites; find a DIFFERENT mechanism in a different function (ideally a different file, or a different clause of the property statement than the ones those ideas attack). Prefer defects that need a multi-step history, a particular interleaving, a restart, a crash/fault point, or a boundary value to manifest.\n"
    open(f'{root}/prompts/{i}.txt', 'w').write(t)
print('ok')
