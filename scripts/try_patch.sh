#!/bin/bash
# usage: scripts/try_patch.sh <patch.diff> <id> [<id>...]   (env TIER=quick|thorough, REVERSE=1 to apply -R)
# Applies a patch to /repo's working tree, runs the given checks, restores /repo. Never commits.
set -u
P=$1; shift
cd /repo
if [ -n "$(git status --porcelain)" ]; then echo "/repo not clean"; exit 3; fi
if [ "${REVERSE:-}" = 1 ]; then git apply -R "$P" || exit 3; else git apply "$P" || exit 3; fi
trap 'git -C /repo checkout -- . ; git -C /repo clean -fdq' EXIT
for id in "$@"; do
  echo "=== $id with $(basename $(dirname $P))/$(basename $P)"
  (cd /verif && VERIF_NOEVIDENCE=1 ./check $id ${TIER:-quick} 2>&1 | cut -c1-400 | grep -E '^(VIOLATION|KNOWN|INCONCLUSIVE|VERDICT)' | head -6; echo "exit=${PIPESTATUS[0]}")
done
