#!/usr/bin/env python3
"""Writes the 'needs' (what the change needs in order to manifest) and 'source' fields into seeded/*/meta.json."""
import json, os
N = {
 'C01-a': 'two conflicting unconfirmed spends A and B of one wallet credit; A abandoned; the same abandon delivered again while B is still unconfirmed',
 'C01-b': 'an unconfirmed tx P removed (confirmed double spend / abandon / detached coinbase) that has an unconfirmed child C spending a NON-credited output of P while C itself pays the wallet',
 'C02-a': 'same as C01-b: descendant reachable only through a non-credited output of a removed conflict',
 'C02-b': 'a single Rollback that restores >= 2 spent credits mined in different surviving blocks',
 'C03-a': 'a seed whose m/purpose\'/coin\' private key has a leading zero byte (~1/256 per scope); only account 0 affected',
 'C03-b': 'imported xpub account with an address-schema override, at least one address issued, then restart / cache eviction, then lookup or issuance on a branch whose format differs from the scope default',
 'C04-a': 'a write fault inside ConvertToWatchingOnly (rolled back) followed by a retry on the same manager',
 'C04-b': 'wallet-level conversion (InitAccounts watchOnly=true) when the requested highest account already exists (incl. num == 0), then reopen',
 'C05-a': 'private passphrase changed while unlocked, then Unlock(new) again without a Lock in between',
 'C05-b': '>= 2 derived keys cached in one scope (DeriveFromKeyPathCache) when the manager locks',
 'C06-a': 'automatic coin selection whose first round covers amount + one-input fee guess but not the fee of the inputs actually selected (window of tens of satoshi), >= 2 inputs',
 'C06-b': 'a published unconfirmed tx re-broadcast with the backend answering "already in mempool", then another send before it confirms',
 'C07-a': 'more than one coin-selection round (first round short by less than the fee difference)',
 'C07-b': 'requested-outputs slice with len < cap, a change output, and a second authoring / append on the same slice before the first tx is signed',
 'C08-a': 'default account with different external / internal address counts, renamed, then compared with a reopened manager',
 'C08-b': 'birthday block set; SetSyncedTo with a non-connecting block (refused, rolled back); running vs reopened manager compared before the next successful SetSyncedTo',
 'C09-a': 'FundPsbt with caller-supplied inputs that needs change, concurrent with another internal-branch issuing call, landing in the commit -> OnCommit window',
 'C09-b': 'non-dry-run txToOutputs with change, concurrent internal-branch request arriving after NotifyReceived and deriving between the first caller\'s commit and its OnCommit',
 'C10-a': 'second or later wallet tx of an already recorded block; fault on exactly the first write (block-record rewrite)',
 'C10-b': 'private ChangePassphrase with a fault on exactly its third (last) write; damage visible only on a later Lock + Unlock / retry',
 'C11-a': 'Update closure that panics after at least one write, panic recovered upstream',
 'C11-b': 'Put of an empty value to a key that is absent at that moment; visible through cursors / presence, not through Get value comparison',
 'C12-a': 'leased, mined, unspent credit with fewer confirmations than minconf (minconf >= 2) or immature coinbase',
 'C13-a': 'unconfirmed tx with >= 2 credits, a lower-indexed one spent by another unconfirmed tx and a higher-indexed one unspent',
 'C13-b': 'backward RangeTransactions with an explicit begin height that has no block record while a higher block record exists',
 'C14-a': 'an unconfirmed child spending >= 2 outputs of the same unconfirmed parent',
 'C14-b': 'unconfirmed chain linked only through NON-credited outputs while no unconfirmed tx spends any unconfirmed credit',
 'C15-a': '(before fix F13) BlockConnected for tip+k (k>1) while the startup rescan runs; after F13 only a failing PutSyncedTo (write fault) triggers it: caught by C10',
 'C15-b': 'best chain reorganised while the wallet is stopped, with a wallet tx in the first reorganised-out block directly above the fork point',
 'C16-a': 'recovery over > 2000 blocks; a wallet output funded in exactly the last block of a full batch and later spent by a tx without any wallet output',
 'C16-b': 'committed batch with more internal than external keys, then interruption and resume, then a payment to an internal index in [E+W, I+W)',
 'C17-a': 'empty plaintext',
 'C17-b': 'unusable scrypt cost parameters (N <= 1, not a power of two, r*p >= 2^30) at key creation',
 'C18-a': 'buffer > 0, overflow list non-empty, consumer frees a slot while a producer send is pending; select picks the input case',
 'C18-b': 'Stop() while the worker is not parked in a select (right after Start, or busy with a burst and a slow consumer)',
 'C19-a': 'version table declared out of ascending order',
 'C19-b': 'a migration failing at a position that is not the last non-nil pending one, followed by a succeeding migration',
 'C20-a': 'rebroadcast pass with >= 2 unconfirmed txs where the backend rejects one that is sorted before an unrelated one',
 'C20-b': 'rejected tx P with an unconfirmed wallet child spending a NON-credited output of P',
 'C01-c': "credit confirmed, spent by a CONFIRMED tx, then the credit's confirmation delivered again (AddCredit repeated)",
 'C02-c': 'two wallet-relevant txs conflicting on an outpoint of a tx the store never saw; loser inserted via mempool; winner mined',
 'C03-c': 'Extend*Addresses while locked, then Unlock, then PrivKey of a still-cached extended address',
 'C04-c': 'Unlock, ChangePassphrase(private) while unlocked, ImportPrivateKey without a lock/unlock in between',
 'C05-c': 'ManagedScriptAddress obtained through ForEachAccountAddress and used while unlocked, kept across Lock',
 'C06-c': 'minconf > coinbase maturity with a coinbase credit between the two',
 'C07-c': 'selected inputs contain P2TR and no (nested) P2WPKH',
 'C08-c': 'two address requests for the same branch inside one committed database transaction',
 'C09-c': 'imported xpub account with different receive/change counts, reloaded (restart / cache eviction)',
 'C10-c': 'NewScopedKeyManager with the fault at exactly its last write',
 'C11-c': 'concurrent Batch calls coalesced by bbolt, one failing after a succeeding one',
 'C12-c': 'LockOutput on an outpoint whose hash is an unmined wallet tx but which is not a wallet credit',
 'C13-c': 'coinbase disconnect + reconnect with an unmined spender, or double spend + reorg + removal (multi-step)',
 'C14-c': 'rebroadcast pass where the backend rejects a tx that is not last in the sorted list',
 'C15-c': "reorg of depth >= 2; a disconnect for an old-branch block >= new tip + 2 repeated while the wallet's chain is shorter",
 'C16-c': 'FilterBlocks error inside a batch, then retry of the sync',
 'C17-c': 'private passphrase changed while unlocked, then Unlock(old) without a Lock in between',
 'C18-c': 'overflow >= 2 items, consumer takes some and stalls, then a send or Stop',
 'C19-c': 'several services in one Upgrade call with an earlier one already up to date',
 'C20-c': 'PublishTransaction while no chain backend is attached',
 'C01-d': 'confirmed credit leased AND spent by an unconfirmed tx at the same time',
 'C02-d': 'parent and child confirmed in the same block, block disconnected, parent re-confirmed alone, child evicted',
 'C03-d': 'key imported into the BIP86 scope, then evicted from the cache (MarkUsed / restart), then looked up',
 'C04-d': 'ImportPrivateKey while the manager is locked',
 'C05-d': 'Encrypt/Decrypt with key type CKTScript while locked',
 'C06-d': 'reorg exactly one block deep replacing the tip block that holds a wallet payment, then a minconf >= 1 send',
 'C07-d': "a second call of the wallet's input source (first round short by less than the fee difference)",
 'C08-d': 'ImportAccountDryRun failing after the account was written, then a committed ImportAccount in the same scope',
 'C09-d': "RenameAccount landing between an issuing call's commit and its commit callback",
 'C10-d': 'first MarkUsed of an address with its single Put failing; visible at the NEXT call (lock held)',
 'C11-d': 'NestedReadBucket on a bucket that is absent at that moment',
 'C12-d': '>= 2 leases, one expired and unswept, the last lease in key order still active, then DeleteExpiredLockedOutputs',
 'C13-d': 'Rollback detaching a credit whose change flag differs from its mined-spent bit',
 'C14-d': 'unconfirmed parent carrying witness data with an unconfirmed child',
 'C15-d': 'reorg detaching a block whose coinbase pays the wallet; replacement block at that height with a wallet tx',
 'C16-d': 'payment to an internal (change) address of the BIP49Plus scope during recovery',
 'C17-d': 'private passphrase longer than 96 bytes, manager already unlocked, wrong passphrase equal in the first 96 bytes',
 'C18-d': 'BitcoindClient.Start failing after the queue started, then Start again',
 'C19-d': 'a second Upgrade of the wtxmgr service in the same process',
 'C20-d': 'rebroadcast with an unconfirmed child spending two outputs of one unconfirmed parent',
 'C01-e': "confirmed spend of a credit reorged out while the credit's block survives, spender then abandoned / conflicted away, Balance with minconf >= 2",
 'C02-e': '>= 2 conflicting unconfirmed spenders of one wallet output, all removed without any of them confirming',
 'C03-e': 'ImportAccountDryRun, then another account created in the same scope (re-uses the number), then any address operation on it',
 'C04-e': 'address ids of exactly 32 bytes (taproot scope, witness / taproot scripts) before any transaction is recorded',
 'C05-e': 'normal manager with an imported xpub account, locked, Extend*Addresses on that account, then Unlock',
 'C06-e': 'two conflicting unconfirmed spends of one wallet credit known to the store; one removed (rejection / conflict)',
 'C07-e': 'fee rate that is not a multiple of 1000 sat/kvB with (rate % 1000) x vsize >= 1000',
 'C08-e': 'registered non-default key scope; a recovery batch finds an address of it and then fails',
 'C09-e': "a read-only account query between an issuing call's derivation and its commit callback",
 'C10-e': 'Rollback detaching only the block of a mined spend, write fault exactly at the Put that rewrites the credit as unspent',
 'C11-e': 'ForEach over a bucket that contains a nested bucket',
 'C12-e': 'lease whose expiry has a sub-second part >= 500 ms, observed between the reported expiry and the next whole second',
 'C13-e': 'confirmed tx whose foreign input precedes an input spending a mined wallet credit',
 'C14-e': 'tx whose input at position p spends prevout index n != p, mined, rolled back; later another tx spending parent:p confirms',
 'C15-e': 'reorg (longer new branch) delivered while the wallet is still rescanning at start-up',
 'C16-e': 'payment to an index more than W below the highest found index of its branch (address re-use / late first use)',
 'C17-e': 'concurrent Encrypt calls',
 'C18-e': 'BitcoindClient stopped without ever having subscribed to blocks',
 'C19-e': 'wtxmgr upgrade pending while the waddrmgr namespace is newer than understood or fails to upgrade',
 'C20-e': 'backend answer "mempool min fee not met"',
}
root='/verif/seeded'
for n in sorted(os.listdir(root)):
    mp=os.path.join(root,n,'meta.json')
    if n.startswith('revert-'):
        m = json.load(open(mp)) if os.path.exists(mp) else {}
        m.setdefault('name', n)
        m['source']='reverse of a fix: commit in /repo (the code as it was before the repair)'
        m['needs']='see DESIGN.md section 5, row '+n.replace('revert-','')
        json.dump(m, open(mp,'w'), indent=1)
        continue
    if not os.path.exists(mp): continue
    m=json.load(open(mp))
    if n.startswith('hand-'):
        m['source']='hand-written from the "Catches" lists of DESIGN.md section 4 (not by a sub-agent; no demonstration test)'
        m['what_i_ran']='scripts/hand_tests.py (scratch worktree: builds, existing tests of the touched packages pass with it); scripts/seed_matrix.py'
        json.dump(m, open(mp,'w'), indent=1)
        continue
    m['needs']=N.get(n, m.get('needs',''))
    m['source']='independent sub-agent given only the property text and a scratch worktree (round %s)' % {'a':'1','b':'2','c':'3','d':'4','e':'5'}.get(n[-1],'?')
    m['what_i_ran']='scripts/confirm_seed.py (fresh worktree of /repo HEAD: git apply --check, go build, existing tests of touched packages, demo fails with / passes without); scripts/seed_matrix.py (patch applied to /repo working tree, quick tier of the named checks, tree restored)'
    json.dump(m, open(mp,'w'), indent=1)
print('ok')
