#!/usr/bin/env python3
"""seed_regress.py [names...]
Regression of the seeded corpus after the checks changed: every seeded change whose OWN
property's check was recorded as catching it is applied again (never committed, always
undone) and that one check is re-run at the quick tier.  Nothing in meta.json / MATRIX.md
is rewritten; results go to seeded/REGRESSION.md and stdout."""
import json, os, re, subprocess, sys, time
ROOT='/verif'; SEED=os.path.join(ROOT,'seeded')
def sh(cmd): return subprocess.run(cmd, shell=True, capture_output=True, text=True)
names = sys.argv[1:] or sorted(n for n in os.listdir(SEED) if re.match(r'C\d\d-[a-z]$', n) or n.startswith('revert-'))
rows=[]
for n in names:
    d=os.path.join(SEED,n); mp=os.path.join(d,'meta.json')
    if not os.path.exists(mp): continue
    meta=json.load(open(mp))
    rev=n.startswith('revert-')
    own = (meta.get('caught_by') or [None])[0] if rev else n.split('-')[0]
    if not own or own not in (meta.get('caught_by') or []): continue
    patch=os.path.join(d,'fix.diff' if rev else 'patch.diff')
    assert sh('git -C /repo status --porcelain').stdout.strip()=='', '/repo not clean'
    r=sh(f'git -C /repo apply {"-R" if rev else ""} {patch}')
    if r.returncode!=0:
        rows.append((n,own,'patch no longer applies to HEAD')); print(n,'-> does not apply',flush=True); continue
    try:
        t0=time.time()
        o=sh(f'cd {ROOT} && VERIF_NOEVIDENCE=1 VERIF_LIMIT_S=400 ./check {own.lower()} quick')
        ok = o.returncode==1 and 'VIOLATION' in o.stdout
        rows.append((n,own,('caught' if ok else f'NOT caught (exit {o.returncode})')+f' in {time.time()-t0:.0f}s'))
    finally:
        sh('git -C /repo checkout -- . && git -C /repo clean -fdq')
    print(n,'->',rows[-1][2],flush=True)
with open(os.path.join(SEED,'REGRESSION.md'),'w') as f:
    f.write('# Re-run of the seeded corpus against the final checks (own property only, quick tier)\n\n')
    f.write(f'/repo HEAD {sh("git -C /repo rev-parse --short HEAD").stdout.strip()}, {time.strftime("%Y-%m-%dT%H:%MZ", time.gmtime())}\n\n| seeded | check | result |\n|---|---|---|\n')
    for r_ in rows: f.write('| '+' | '.join(r_)+' |\n')
