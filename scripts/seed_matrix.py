#!/usr/bin/env python3
"""seed_matrix.py [name ...]  — applies every seeded change under /verif/seeded to /repo's working tree
(never committed, always undone), runs the quick tier of the checks named for it and records which fire.
Writes seeded/MATRIX.md and meta.json['caught_by'] / ['missed_by']."""
import json, os, re, subprocess, sys, time
ROOT='/verif'; SEED=os.path.join(ROOT,'seeded')
DEFAULT = {  # reverse-fix patches: which checks should notice
 'revert-F1':['c05'],'revert-F2':['c03'],'revert-F3F9':['c05','c03'],'revert-F4':['c20'],'revert-F5':['c07'],'revert-F6':['c07'],
 'revert-F7':['c01','c02'],'revert-F8':['c15'],'revert-F10':['c10'],'revert-F11':['c03','c08'],'revert-F12':['c03','c08'],
 'revert-F13':['c15'],'revert-F14':['c16'],'revert-F15':['c16'],'revert-F16':['c15'],'revert-F17':['c05'],'revert-F18':['c05'],
}
EXTRA = {'C15-a':['c10'],'C04-a':['c10'],'C08-b':['c10'],'C01-b':['c02','c20'],'C02-a':['c01','c13'],'C20-b':['c01','c02'],'C06-b':['c20'],'C03-b':['c08'],'C12-b':['c01','c02'],'C14-b':['c20'],'C13-b':['c01'],'C15-b':['c10'],'hand-H10':['c01'],'hand-H15':['c02'],'hand-H22':['c09'],'hand-H20':['c14'],'C17-c':['c05'],'C09-c':['c08','c03'],'C14-c':['c20'],'C13-c':['c01','c02'],'C02-c':['c01'],'C10-c':['c08'],'C04-c':['c05'],'C12-c':['c10'],'C01-c':['c02','c13'],'C03-c':['c05','c16'],'C16-c':['c10'],'C01-d':['c12'],'C02-d':['c13','c01'],'C03-d':['c08'],'C05-d':['c17'],'C06-d':['c15'],'C07-d':['c06'],'C08-d':['c09'],'C09-d':['c08'],'C12-d':['c01'],'C13-d':['c02'],'C14-d':['c20'],'C15-d':['c13','c02'],'C16-d':['c03'],'C17-d':['c05'],'C19-d':['c10'],'C20-d':['c14'],'C01-e':['c02'],'C02-e':['c01','c13'],'C03-e':['c08'],'C06-e':['c01','c02'],'C08-e':['c16'],'C10-e':['c02'],'C13-e':['c01'],'C14-e':['c02','c01'],'C19-e':['c10'],'C16-e':['c03'],'C05-e':['c03','c10'],'C01-f':['c02','c13'],'C02-f':['c01','c15'],'C03-f':['c05'],'C04-f':['c03'],'C06-f':['c12','c01'],'C07-f':['c06'],'C08-f':['c16','c03'],'C10-f':['c08','c16'],'C13-f':['c01','c06'],'C14-f':['c20'],'C15-f':['c06'],'C16-f':['c06'],'C17-f':['c05','c04'],'C19-f':['c10'],'C20-f':['c01','c02'],'C01-g':['c02','c13'],'C02-g':['c01'],'C03-g':['c08','c09'],'C04-g':['c05'],'C05-g':['c03'],'C08-g':['c03'],'C09-g':['c08'],'C10-g':['c08'],'C12-g':['c01'],'C13-g':['c01'],'C14-g':['c20','c06'],'C15-g':['c08'],'C16-g':['c03'],'C17-g':['c05'],'C19-g':['c11'],'C06-g':['c20'],'C07-g':['c06'],'C01-h':['c06','c13'],'C02-h':['c01','c13'],'C03-h':['c08','c04'],'C04-h':['c05','c17'],'C05-h':['c03','c08'],'C06-h':['c07'],'C07-h':['c06'],'C08-h':['c03'],'C09-h':['c03','c08'],'C10-h':['c01'],'C11-h':['c10'],'C12-h':['c01','c06'],'C13-h':['c02','c01','c15'],'C14-h':['c13','c01'],'C15-h':['c16'],'C16-h':['c15'],'C17-h':['c05'],'C20-h':['c12','c06'],'C01-i':['c13','c02','c15'],'C02-i':['c01'],'C03-i':['c05'],'C05-i':['c08','c17'],'C07-i':['c06'],'C08-i':['c03'],'C09-i':['c03','c08','c10'],'C10-i':['c08','c15'],'C11-i':['c13','c01'],'C12-i':['c20','c01'],'C13-i':['c01','c02'],'C14-i':['c20'],'C15-i':['c16','c10'],'C20-i':['c14'],'C01-j':['c02','c13','c15'],'C02-j':['c01','c13'],'C03-j':['c05'],'C04-j':['c05','c17'],'C06-j':['c15'],'C07-j':['c06'],'C08-j':['c06','c03'],'C10-j':['c08'],'C12-j':['c01'],'C13-j':['c01','c02'],'C14-j':['c01','c20'],'C15-j':['c16'],'C17-j':['c05','c04'],'C20-j':['c01','c12'],'C01-k':['c02','c13'],'C02-k':['c01','c13'],'C03-k':['c08'],'C04-k':['c05'],'C05-k':['c08','c03'],'C07-k':['c06'],'C08-k':['c10','c03'],'C09-k':['c05','c03','c08'],'C10-k':['c04','c05'],'C12-k':['c01','c06'],'C13-k':['c01'],'C14-k':['c01','c02','c20'],'C15-k':['c01','c02','c13'],'C17-k':['c05','c08']}
def sh(cmd, **kw): return subprocess.run(cmd, shell=True, capture_output=True, text=True, **kw)
names = sys.argv[1:] or sorted(os.listdir(SEED))
rows=[]
for n in names:
    d=os.path.join(SEED,n)
    if not os.path.isdir(d): continue
    rev = n.startswith('revert-')
    patch = os.path.join(d,'fix.diff' if rev else 'patch.diff')
    if not os.path.exists(patch): continue
    meta = {}
    mp=os.path.join(d,'meta.json')
    if os.path.exists(mp): meta=json.load(open(mp))
    base = meta.get('property', n.split('-')[0]).lower() if n.startswith('hand-') else n.split('-')[0].lower()
    checks = DEFAULT.get(n) or ([base] + EXTRA.get(n,[]))
    assert sh('git -C /repo status --porcelain').stdout.strip()=='' , '/repo not clean'
    r = sh(f'git -C /repo apply {"-R" if rev else ""} {patch}')
    if r.returncode!=0:
        rows.append((n,'-','patch does not apply to HEAD: '+r.stderr.strip()[:100],'')); continue
    caught=[]; missed=[]; detail=[]
    try:
        for c in checks:
            t0=time.time()
            o = sh(f'cd {ROOT} && VERIF_NOEVIDENCE=1 VERIF_LIMIT_S=400 ./check {c} quick')
            keys = sorted(set(re.findall(r'key=(\S+)', o.stdout)))
            ok = o.returncode==1 and 'VIOLATION' in o.stdout
            (caught if ok else missed).append(c.upper())
            detail.append(f'{c.upper()}: exit {o.returncode} in {time.time()-t0:.0f}s' + (f' keys {", ".join(keys[:3])}' if keys else ''))
    finally:
        sh('git -C /repo checkout -- . && git -C /repo clean -fdq')
    rows.append((n, ', '.join(caught) or '—', '; '.join(detail), ', '.join(missed)))
    if meta or not rev:
        meta['caught_by']=caught; meta['missed_by']=missed; meta['matrix_run']=time.strftime('%Y-%m-%dT%H:%MZ', time.gmtime())
        meta['repo_head_matrix']=sh('git -C /repo rev-parse --short HEAD').stdout.strip()
        json.dump(meta, open(mp,'w'), indent=1)
    print(n, '->', caught, 'missed', missed, flush=True)
# merge into MATRIX.md (keep rows of seeds not re-run)
mfile=os.path.join(SEED,'MATRIX.md'); old={}
if os.path.exists(mfile):
    for l in open(mfile):
        m=re.match(r'\| (\S+) \| (.*?) \| (.*?) \| (.*?) \|$', l.strip())
        if m and m.group(1)!='seeded': old[m.group(1)]=m.groups()
for r_ in rows: old[r_[0]]=r_
with open(mfile,'w') as f:
    f.write('# Seeded changes x checks (quick tier), generated by scripts/seed_matrix.py\n\n')
    f.write('Each patch is applied to /repo\'s working tree, the named checks run (VERIF_NOEVIDENCE=1), and the tree is restored. "caught" = exit 1 with a VIOLATION line.\n\n')
    f.write('| seeded | caught by | detail | missed by |\n|---|---|---|---|\n')
    for k in sorted(old): f.write('| '+' | '.join(old[k])+' |\n')
