#!/bin/bash
# usage: scripts/sweep.sh <outdir> <seed> [<seed>...]      (env TIER=quick|thorough)
# Runs every check on the unchanged tree at the given VERIF_SEED values (no evidence
# written) and lists every run that did not end "held" in <outdir>/bad.txt.
export GOFLAGS=-mod=mod GOPROXY=off GOSUMDB=off GOTOOLCHAIN=local
out=$1; shift
mkdir -p "$out"
cd /verif
if [ -n "$(git -C /repo status --porcelain)" ]; then echo "/repo not clean" | tee -a "$out/bad.txt"; exit 3; fi
for s in "$@"; do
  for i in 01 02 03 04 05 06 07 08 09 10 11 12 13 14 15 16 17 18 19 20; do
    t0=$(date +%s)
    res=$(VERIF_SEED=$s VERIF_NOEVIDENCE=1 VERIF_LIMIT_S=${LIMIT:-900} ./check c$i ${TIER:-quick} 2>&1 | grep -E '^VIOLATION|^INCONCL|^VERDICT|^KNOWN' | head -3 | cut -c1-300 | tr '\n' '|')
    t1=$(date +%s)
    echo "seed=$s c$i $((t1-t0))s" >> "$out/times.txt"
    case "$res" in *"held on everything"*) ;; *) echo "seed=$s c$i: $res" >> "$out/bad.txt";; esac
  done
  echo "seed $s done $(date +%T)" >> "$out/progress.txt"
done
