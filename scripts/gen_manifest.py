#!/usr/bin/env python3
"""Generates /verif/MANIFEST.json from the table below; validates it."""
import json, os, subprocess, sys
ROOT = os.path.dirname(os.path.dirname(os.path.abspath(__file__)))
props = [json.loads(l) for l in open(os.path.join(ROOT, 'properties.jsonl'))]

# id -> (level category, technique, level text, level note, design ref)
C = {}
def claim(i, cat, technique, text, note, ref):
    C[i] = dict(cat=cat, technique=technique, text=text, note=note, ref=ref)

exec(open(os.path.join(ROOT, 'scripts', 'claims.py')).read())

hooks = subprocess.run(['git','-C','/repo','log','--format=%h %s','--grep=^verif hook'],capture_output=True,text=True).stdout.strip().splitlines()
checks, na = [], []
for p in props:
    i = p['id']
    if i in C and os.path.isdir(os.path.join(ROOT,'checks',i.lower())):
        c = C[i]
        checks.append({
            'property_id': i,
            'quick_cmd': f'./check {i} quick',
            'thorough_cmd': f'./check {i} thorough',
            'evidence_file': f'/verif/evidence/{i}.json',
            'replay_cmd_template': f'./check {i} --replay {{path}}',
            'engine': 'go-runtime-monitor',
            'level_claimed': {'category': c['cat'], 'text': c['text'], 'design_ref': c['ref']},
            'level_note': c['note'],
            'technique': c['technique'],
        })
    else:
        na.append({'property_id': i, 'reason': 'monitor designed (DESIGN.md section 4) but not yet built/registered at this commit; runtime monitoring does apply'})
m = {
 'version': 1,
 'setup_cmd': './check build',
 'hooks': {
   'guard': 'verif (Go build tag)',
   'enable': 'go build -tags verif (every monitor binary is built that way by ./check); hook files: waddrmgr/verif_hooks.go, wtxmgr/verif_hooks.go, wallet/verif_hooks.go, chain/verif_hooks.go',
   'baseline_off_cmd': '/verif/scripts/baseline_off.sh',
   'source_commits': [h.split()[0] for h in hooks],
   'add_only': True,
 },
 'engines': [
   {'name': 'go-runtime-monitor', 'path': '/verif/checks', 'serves_properties': [c['property_id'] for c in checks],
    'kind_free_text': 'one Go monitor binary per property, rebuilt from /repo working tree (go.mod replace => /repo for the root module and its five sub-modules) with -tags verif; -race for C09 and C18; drives the real code under generated workloads, faults and delays and judges with reference models / differential oracles / trace checkers'},
 ],
 'checks': checks,
 'not_applicable': na,
 'notes': 'Technique family: runtime monitoring and sanitizers. See DESIGN.md. KNOWN_FINDINGS.txt lists fixed defects (fix: commits in /repo); no open known findings suppress anything.',
}
json.dump(m, open(os.path.join(ROOT,'MANIFEST.json'),'w'), indent=1)
try:
    import jsonschema
    jsonschema.validate(m, json.load(open('/root/.vp/MANIFEST.schema.json')))
    print('MANIFEST.json valid;', len(checks), 'checks,', len(na), 'not_applicable')
except ImportError:
    print('jsonschema not available; not validated')
