#!/usr/bin/env python3
"""confirm_seed.py <src _seed dir> <name> <property id>
Independently confirms a sub-agent's seeded defect in a fresh scratch worktree of /repo:
 (1) patch applies to /repo HEAD, (2) tree builds, (3) existing tests of touched packages pass with it,
 (4) the demonstration fails with the change and (5) passes without it.
Then stores it under /verif/seeded/<name>/ (patch.diff, demo, meta.json). Removes the worktree."""
import json, os, re, shutil, subprocess, sys, time
src, name, prop = sys.argv[1], sys.argv[2], sys.argv[3]
env = dict(os.environ, GOFLAGS='-mod=mod', GOPROXY='off', GOSUMDB='off', GOTOOLCHAIN='local')
wt = f'/tmp/confirm/{name}'
subprocess.run(['git','-C','/repo','worktree','remove','--force',wt],capture_output=True)
os.makedirs('/tmp/confirm',exist_ok=True)
def sh(cmd, cwd=wt, timeout=1500):
    p = subprocess.run(cmd, shell=True, cwd=cwd, env=env, capture_output=True, text=True, timeout=timeout)
    return p.returncode, (p.stdout + p.stderr)
rc,out = sh(f'git -C /repo worktree add -q --detach {wt} HEAD', cwd='/')
assert rc==0, out
meta = {'property': prop, 'name': name, 'repo_head': subprocess.run(['git','-C','/repo','rev-parse','--short','HEAD'],capture_output=True,text=True).stdout.strip()}
try:
    patch = os.path.join(src,'patch.diff')
    dp = open(os.path.join(src,'demo_path.txt')).read()
    demo_rel = re.search(r'([\w/\.-]+_test\.go)', dp).group(1)
    m = re.search(r"-run[ =]+'?\"?([\w|^$()]+)", dp)
    testname = m.group(1)
    submods = ['wtxmgr','walletdb','wallet/txauthor','wallet/txrules','wallet/txsizes']
    def module_of(path):
        for s in submods:
            if path.startswith(s+'/'): return s
        return '.'
    touched = sorted(set(re.findall(r'^\+\+\+ b/(\S+)', open(patch).read(), re.M)))
    meta['touched_files'] = touched
    assert all(not t.endswith('_test.go') for t in touched), 'patch touches test files'
    rc,out = sh(f'git apply --check {patch} && git apply {patch}')
    meta['applies'] = rc==0
    assert rc==0, out
    # build
    rc,out = sh('go build ./... ')
    for s in set(module_of(t) for t in touched):
        if s!='.':
            r2,o2 = sh('go build ./...', cwd=os.path.join(wt,s)); rc |= r2; out += o2
    meta['builds'] = rc==0
    assert rc==0, out
    # existing tests of touched packages (+ wallet for root-module changes)
    pk = set()
    for t in touched:
        mod = module_of(t); d = os.path.dirname(t)
        rel = os.path.relpath(d, mod) if mod!='.' else d
        pk.add((mod, './'+rel if rel!='.' else '.'))
        if mod=='.' and d.startswith('waddrmgr'): pk.add(('.','./wallet'))
    ran=[]; ok=True
    for mod,pkg in sorted(pk):
        rc,out = sh(f'go test -count=1 -vet=off {pkg}', cwd=os.path.join(wt,mod))
        bad = rc!=0 and not ('TestBitcoindEvents' in out and out.count('--- FAIL')<=3 and 'chain' in pkg)
        ran.append({'module':mod,'pkg':pkg,'pass':not bad,'tail':out[-300:]})
        ok &= not bad
    meta['existing_tests'] = ran; meta['existing_tests_pass'] = ok
    # demo with change
    shutil.copy(os.path.join(src,'demo_test.go.txt'), os.path.join(wt,demo_rel))
    mod = module_of(demo_rel); d = os.path.dirname(demo_rel)
    rel = os.path.relpath(d, mod) if mod!='.' else d
    pkg = './'+rel if rel!='.' else '.'
    cmd = f"go test -count=1 -vet=off -run '{testname}' {pkg}"
    rc,out = sh(cmd, cwd=os.path.join(wt,mod))
    meta['demo_cmd'] = f'(cd {mod} && {cmd})'; meta['demo_fails_with_change'] = rc!=0 and 'FAIL' in out
    meta['demo_with_tail'] = out[-600:]
    rc,out = sh(f'git apply -R {patch}')
    rc,out = sh(cmd, cwd=os.path.join(wt,mod))
    meta['demo_passes_without_change'] = rc==0
    meta['demo_without_tail'] = out[-200:]
    meta['demo_path'] = demo_rel
    meta['confirmed'] = bool(meta['applies'] and meta['builds'] and ok and meta['demo_fails_with_change'] and meta['demo_passes_without_change'])
except Exception as e:
    meta['confirmed'] = False; meta['error'] = repr(e)[:2000]
finally:
    subprocess.run(['git','-C','/repo','worktree','remove','--force',wt],capture_output=True)
    subprocess.run(['git','-C','/repo','worktree','prune'],capture_output=True)
meta['confirmed_at'] = time.strftime('%Y-%m-%dT%H:%M:%SZ', time.gmtime())
if meta['confirmed']:
    dst = f'/verif/seeded/{name}'
    os.makedirs(dst, exist_ok=True)
    if os.path.abspath(src)!=os.path.abspath(dst): shutil.copy(os.path.join(src,'patch.diff'), dst+'/patch.diff')
    if os.path.abspath(src)!=os.path.abspath(dst):
        shutil.copy(os.path.join(src,'demo_test.go.txt'), dst+'/demo_test.go.txt')
        shutil.copy(os.path.join(src,'demo_path.txt'), dst+'/demo_path.txt')
    if os.path.abspath(src)!=os.path.abspath(dst) and os.path.exists(os.path.join(src,'README.md')): shutil.copy(os.path.join(src,'README.md'), dst+'/README.md')
    try:
        old=json.load(open(dst+'/meta.json')); meta['needs']=old.get('needs',''); meta['caught_by']=old.get('caught_by',[])
    except Exception:
        meta['needs']=''
    json.dump(meta, open(dst+'/meta.json','w'), indent=1)
if not meta['confirmed'] and os.path.isdir(f'/verif/seeded/{name}'):
    json.dump(meta, open(f'/verif/seeded/{name}/meta.unconfirmed.json','w'), indent=1)
print(json.dumps({k:meta[k] for k in meta if k not in('existing_tests','demo_with_tail','demo_without_tail')}, indent=1))
