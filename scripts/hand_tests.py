#!/usr/bin/env python3
"""Runs the repository's existing tests of the touched packages against every hand-written mutant
(in a scratch worktree) and records the outcome in meta.json; mutants the existing suite notices are dropped."""
import json, os, re, shutil, subprocess
WT='/tmp/hand'
env=dict(os.environ, GOFLAGS='-mod=mod', GOPROXY='off', GOSUMDB='off', GOTOOLCHAIN='local')
def sh(c, cwd=WT): return subprocess.run(c, shell=True, cwd=cwd, env=env, capture_output=True, text=True)
subs=['wtxmgr','walletdb','wallet/txauthor','wallet/txrules','wallet/txsizes']
for n in sorted(os.listdir('/verif/seeded')):
    if not n.startswith('hand-'): continue
    d='/verif/seeded/'+n; patch=d+'/patch.diff'
    meta=json.load(open(d+'/meta.json'))
    if 'existing_tests_pass' in meta: continue
    sh('git checkout -- .')
    if sh(f'git apply {patch}').returncode!=0: print(n,'no apply'); continue
    files=re.findall(r'^\+\+\+ b/(\S+)', open(patch).read(), re.M)
    ok=True; ran=[]
    for f in files:
        mod=next((m for m in subs if f.startswith(m+'/')), '.')
        pk=os.path.dirname(f); rel=os.path.relpath(pk, mod) if mod!='.' else pk
        cmds=[(mod, f'go test -count=1 -vet=off ./{rel}' if rel!='.' else 'go test -count=1 -vet=off .')]
        if mod=='.' and pk=='waddrmgr': cmds.append(('.', 'go test -count=1 -vet=off ./wallet'))
        for m,c in cmds:
            r=sh(c, cwd=os.path.join(WT,m))
            bad = r.returncode!=0 and not ('TestBitcoindEvents' in r.stdout and r.stdout.count('--- FAIL')<=3 and 'chain' in c)
            ran.append(f'{m}: {c} -> {"FAIL" if bad else "ok"}')
            ok &= not bad
    sh('git checkout -- .')
    meta['existing_tests_pass']=ok; meta['existing_tests']=ran
    json.dump(meta, open(d+'/meta.json','w'), indent=1)
    print(n, 'existing tests', 'pass' if ok else 'FAIL (dropped)', flush=True)
    if not ok: shutil.rmtree(d)
