#!/bin/bash
# Measures which statements of the code under test the quick tier reaches (go build -cover; not a check,
# not part of any verdict).  Output: .work/cov/func.txt (per function) and a per-package table on stdout.
set -u
export GOFLAGS=-mod=mod GOPROXY=off GOSUMDB=off GOTOOLCHAIN=local
cd "$(dirname "$0")/.."
B=github.com/btcsuite/btcwallet
PK=$B/waddrmgr,$B/wtxmgr,$B/wallet,$B/wallet/txauthor,$B/wallet/txrules,$B/wallet/txsizes,$B/walletdb,$B/walletdb/bdb,$B/walletdb/migration,$B/chain,$B/snacl
rm -rf .work/cov; mkdir -p .work/cov/bin .work/cov/tmp
for d in checks/c*/; do
  id=$(basename $d)
  race=""; case $id in c09|c18) continue;; esac   # -race builds are left out (coverage + race is very slow)
  go build -tags verif -cover -coverpkg=$PK,verif/checks/$id -o .work/cov/bin/$id ./checks/$id 2>/dev/null || continue
  mkdir -p .work/cov/data/$id
  GOCOVERDIR=$PWD/.work/cov/data/$id VERIF_ROOT=$PWD VERIF_NOEVIDENCE=1 TMPDIR=$PWD/.work/cov/tmp timeout 900 .work/cov/bin/$id quick > .work/cov/$id.log 2>&1
done
dirs=$(ls -d .work/cov/data/c* | tr '\n' ',' | sed 's/,$//')
go tool covdata textfmt -i=$dirs -o .work/cov/all.txt
go tool cover -func=.work/cov/all.txt | grep -v '^verif/' | sed "s|$B/||" > .work/cov/func.txt
python3 - <<'PY'
import re,collections
tot=collections.defaultdict(lambda:[0,0])
for l in open('.work/cov/all.txt'):
    m=re.match(r'(.+?):(\d+)\.(\d+),(\d+)\.(\d+) (\d+) (\d+)',l)
    if not m or m.group(1).startswith('verif/'): continue
    pkg='/'.join(m.group(1).replace('github.com/btcsuite/btcwallet/','').split('/')[:-1])
    n=int(m.group(6)); tot[pkg][0]+=n; tot[pkg][1]+= n if int(m.group(7))>0 else 0
for k,v in sorted(tot.items()): print(f"{k:28s} {v[1]:6d}/{v[0]:6d} {100*v[1]/max(1,v[0]):5.1f}%")
PY
