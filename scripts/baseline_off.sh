#!/bin/bash
# Runs the repository's own test suite with the verif guard OFF (no -tags).
# Output: go test -json streams per module under $OUT (default /verif/.work/baseline).
export GOFLAGS=-mod=mod GOPROXY=off GOSUMDB=off GOTOOLCHAIN=local
OUT=${OUT:-/verif/.work/baseline}
mkdir -p "$OUT"
rc=0
for m in . wallet/txauthor wallet/txrules wallet/txsizes walletdb wtxmgr; do
  n=$(echo "$m" | tr '/.' '__')
  (cd /repo/$m && go test -json -vet=off -count=1 -timeout 25m ./...) > "$OUT/$n.json" 2>"$OUT/$n.err" || rc=1
done
python3 - "$OUT" <<'PY'
import json,sys,glob
p=f=0; failed=[]
for fn in glob.glob(sys.argv[1]+'/*.json'):
    for l in open(fn):
        try: e=json.loads(l)
        except: continue
        if e.get('Test') and e.get('Action') in('pass','fail'):
            if e['Action']=='pass': p+=1
            else: f+=1; failed.append(e['Package']+'::'+e['Test'])
print(f"baseline (guard off): pass={p} fail={f}")
for x in failed: print("  FAIL",x)
PY
exit 0
